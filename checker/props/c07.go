package props

import (
	"fmt"
	"go/token"
	"go/types"

	"golang.org/x/tools/go/ssa"

	"gohbaseverif/kit"
)

func init() {
	register("C07", &Property{
		Title: "Batch results are positional and self-consistent",
		Explanation: "(R1) every store into a []hrpc.RPCResult (found by type in all non-test code) is indexed by the original position of the call it describes: either a lookup in the call->index map that SendBatch fills with m[rpc]=i while ranging over the original batch, keyed by the call whose result is written, or the index of a range over a call slice that is aligned with the result slice (result slice = make(len(that slice)), or both are parameters and the alignment is an obligation at every call site); " +
			"(R2) the validation loop stores an error into every slot before anything is queued, and the call->index map is filled in that same loop with the range element and index; " +
			"(R3) a result received from a call's channel is stored only into that same call's slot; " +
			"(R4) success-flag bookkeeping across rounds: inside the retry loop allOK is only set to false or to the negation of a sticky flag that is declared outside the loop, never reset inside it and only ever OR-ed with the per-group 'unretryable error seen' result; a failed group sets allOK to false." +
			" Added after the seeded-change rounds: (R5) an error taken from a context and stored into a slot is the Err() of the context whose Done() was seen on that path (or sits in the drain loop whose lower bound is only lowered in that arm); a whole result copied from the location step's result slice into a slot is copied only on the edge where it carries an error; the queue channel of the region client is unbuffered (shared with C03.R5); a context error goes into the slot of a call only out of the default of a non-blocking select that polled that call's ResultChan() - a blocking select picks among ready cases at random, so an answer that arrived before the context ended must win (fix F30).",
		Residue:   "allOK <=> every error is nil as a value-level statement over all outcome sequences (R4 pins the sticky-flag mechanism, not the equivalence)",
		Technique: "index-provenance analysis over SSA (who writes which slot, with which index), alignment obligations propagated to call sites",
		Run:       runC07,
	})
}

func isResultSlice(p *kit.Prog, t types.Type) bool {
	sl, ok := t.Underlying().(*types.Slice)
	if !ok {
		return false
	}
	n := p.Named("hrpc", "RPCResult")
	return n != nil && types.Identical(sl.Elem(), n)
}

// nonNilOrigins resolves a (possibly spilled) slice variable to the distinct
// non-nil values ever assigned to it.
func nonNilOrigins(v ssa.Value) []ssa.Value {
	v = kit.Strip(v)
	if r := kit.Root(v); r != v {
		return nonNilOrigins(r)
	}
	if u, ok := v.(*ssa.UnOp); ok && u.Op == token.MUL {
		addr := u.X
		if fv, ok := addr.(*ssa.FreeVar); ok {
			if b := kit.FreeVarBinding(fv); b != nil {
				addr = b
			}
		}
		if a, ok := addr.(*ssa.Alloc); ok {
			var out []ssa.Value
			seen := map[ssa.Value]bool{}
			for _, st := range kit.StoresTo(a) {
				r := kit.Root(st)
				if kit.IsNilConst(r) {
					continue
				}
				// self-assignment (return res, ... of a named result)
				if l, ok := r.(*ssa.UnOp); ok && l.Op == token.MUL && l.X == ssa.Value(a) {
					continue
				}
				if !seen[r] {
					seen[r] = true
					out = append(out, r)
				}
			}
			return out
		}
	}
	return []ssa.Value{v}
}

// rangeInfo describes `for i, x := range S`: idx is the index value.
type rangeInfo struct {
	slice ssa.Value
	idx   ssa.Value
}

// rangeOfIndex recognises idx as the index of a rotated rangeindex loop and
// returns the ranged slice (from the element load &S[idx] or the len bound).
func rangeOfIndex(idx ssa.Value) (ssa.Value, bool) {
	if bo, ok := idx.(*ssa.BinOp); ok && bo.Op == token.ADD {
		if ph, ok := bo.X.(*ssa.Phi); ok && ph.Comment == "rangeindex" {
			// bound: idx < len(S)
			for _, r := range kit.Referrers(bo) {
				if cmp, ok := r.(*ssa.BinOp); ok && cmp.Op == token.LSS && cmp.X == ssa.Value(bo) {
					if s := kit.LenOf(cmp.Y); s != nil {
						return s, true
					}
				}
			}
			return nil, false
		}
	}
	// the hand-written form: for i := 0; i < len(S) (or n := len(S); i < n); i++
	ph, ok := kit.Strip(idx).(*ssa.Phi)
	if !ok {
		return nil, false
	}
	if b, isB := ph.Type().Underlying().(*types.Basic); !isB || b.Info()&types.IsInteger == 0 {
		return nil, false
	}
	zero, inc := false, false
	for _, e := range ph.Edges {
		if k, ok := kit.ConstInt(e); ok && k == 0 {
			zero = true
			continue
		}
		if bo, ok := e.(*ssa.BinOp); ok && bo.Op == token.ADD && bo.X == ssa.Value(ph) {
			if k, ok := kit.ConstInt(bo.Y); ok && k == 1 {
				inc = true
				continue
			}
		}
		return nil, false // some other value flows into the counter
	}
	if !zero || !inc {
		return nil, false
	}
	// the loop test i < B in the phi's block (loop header), leaving the loop on false
	for _, r := range kit.Referrers(ph) {
		cmp, ok := r.(*ssa.BinOp)
		if !ok || cmp.Op != token.LSS || cmp.X != ssa.Value(ph) || cmp.Block() != ph.Block() {
			continue
		}
		isLoopTest := false
		for _, rr := range kit.Referrers(cmp) {
			if iff, ok := rr.(*ssa.If); ok && iff.Block() == ph.Block() {
				isLoopTest = true
			}
		}
		if !isLoopTest {
			continue
		}
		if s := kit.LenOf(kit.Root(cmp.Y)); s != nil {
			return s, true
		}
	}
	return nil, false
}

func runC07(c *kit.Ctx) {
	p := c.P
	sb := c.Anchor("", "client", "SendBatch")
	if sb == nil {
		return
	}
	// the call->index map(s): values of type map[hrpc.Call]int
	isIndexMap := func(t types.Type) bool {
		m, ok := t.Underlying().(*types.Map)
		if !ok {
			return false
		}
		call := p.Named("hrpc", "Call")
		b, isB := m.Elem().Underlying().(*types.Basic)
		return call != nil && types.Identical(m.Key(), call) && isB && b.Kind() == types.Int
	}

	// ---- R2 first: the map is filled with (range element -> range index) over the original batch
	c.StartRule("R2", "every slot initialised and the call->index map filled positionally before anything is queued", 3)
	var batchParam *ssa.Parameter
	for _, pa := range sb.Params {
		if sl, ok := pa.Type().Underlying().(*types.Slice); ok {
			if n := p.Named("hrpc", "Call"); n != nil && types.Identical(sl.Elem(), n) {
				batchParam = pa
			}
		}
	}
	var theMap ssa.Value
	nFill := 0
	for _, fn := range p.Funcs {
		kit.Instrs(fn, func(in ssa.Instruction) {
			mu, ok := in.(*ssa.MapUpdate)
			if !ok || !isIndexMap(mu.Map.Type()) {
				return
			}
			nFill++
			good := fn == sb
			var why string
			if good {
				s, isRange := rangeOfIndex(mu.Value)
				if !isRange || s != ssa.Value(batchParam) {
					good, why = false, "the value stored is not the index of a range over the original batch"
				} else {
					// key must be the element at that index
					k := kit.Root(mu.Key)
					u, isLoad := k.(*ssa.UnOp)
					if !isLoad {
						good, why = false, "key is not the range element"
					} else if ia, isIA := u.X.(*ssa.IndexAddr); !isIA || ia.X != ssa.Value(batchParam) || ia.Index != mu.Value {
						good, why = false, "key is not the element at the stored index"
					}
				}
				if good {
					origins := nonNilOrigins(mu.Map)
					if len(origins) == 1 {
						theMap = origins[0]
					}
				}
			} else {
				why = "the call->index map is written outside SendBatch's validation loop"
			}
			c.Check(good, fn, "index-map-fill", mu.Pos(), "m[rpc] = i for the range element and index of the original batch", "call->index map filled wrongly: "+why)
		})
	}
	if nFill == 0 {
		c.Unk(sb, "index-map-fill", sb.Pos(), "no map[hrpc.Call]int is filled anywhere: the positional bookkeeping of SendBatch changed")
	}
	// every path through the validation loop body stores an error into res[i].Error
	errField := p.Field("hrpc", "RPCResult", "Error")
	var loopHdr *ssa.BasicBlock
	var bodyEntry *ssa.BasicBlock
	kit.Instrs(sb, func(in ssa.Instruction) {
		if ph, ok := in.(*ssa.Phi); ok && ph.Comment == "rangeindex" && loopHdr == nil {
			// the first range loop over the batch parameter
			for _, r := range kit.Referrers(ph) {
				if bo, ok := r.(*ssa.BinOp); ok && bo.Op == token.ADD {
					if s, ok := rangeOfIndex(bo); ok && s == ssa.Value(batchParam) {
						loopHdr = ph.Block()
						bodyEntry = ph.Block().Succs[0]
					}
				}
			}
		}
	})
	if loopHdr == nil {
		c.Unk(sb, "validation-loop", sb.Pos(), "no range loop over the batch parameter found in SendBatch")
	} else {
		e := kit.PathFromBlock(bodyEntry, kit.PathQuery{
			Target: func(in ssa.Instruction) bool { return in.Block() == loopHdr },
			Stop: func(in ssa.Instruction) bool {
				st, ok := in.(*ssa.Store)
				if !ok {
					return false
				}
				fa, ok := st.Addr.(*ssa.FieldAddr)
				if !ok || kit.FieldVar(fa.X.Type(), fa.Field) != errField {
					return false
				}
				_, isIA := fa.X.(*ssa.IndexAddr)
				return isIA && !kit.IsNilConst(st.Val)
			},
		})
		c.Check(e == nil, sb, "slot-initialised", firstPos(bodyEntry), "every iteration of the validation loop stores an error (NotExecutedError or a specific one) into its slot",
			"an iteration of the validation loop can leave its result slot empty: "+c.BlockPath(e))
		// nothing can be queued before the loop has finished: calls that reach QueueBatch/QueueRPC are dominated by the loop exit
		for _, call := range kit.Calls(sb, kit.M("", "*client", "findClients"), hrpcRC+"QueueBatch", hrpcRC+"QueueRPC") {
			c.Check(loopHdr.Dominates(call.Block()) && !kit.Reaches(call, loopHdr.Instrs[0]), sb, "queue-after-validation", call.Pos(),
				"runs only after the validation loop", "a call can be located/queued before validation has finished")
		}
	}

	// ---- R4 ---------------------------------------------------------------
	c.StartRule("R4", "success flag bookkeeping across retry rounds; a call that fails without being retried is remembered", 7)
	successFlag(c, sb, batchParam)
	successFlagLoweredOnlyWithAnError(c)
	batchFlagLoweredOnlyWithAnError(c)
	lookupFailuresReachTheirSlots(c)
	batchRetriesUntilNothingIsLeft(c)
	lookupFailuresAreFinal(c)

	// ---- R1 ---------------------------------------------------------------
	c.StartRule("R1", "every store into a result slot is indexed by the original position of the call it describes", 6)
	type site struct {
		fn    *ssa.Function
		ia    *ssa.IndexAddr
		store *ssa.Store
	}
	var sites []site
	for _, fn := range p.Funcs {
		kit.Instrs(fn, func(in ssa.Instruction) {
			ia, ok := in.(*ssa.IndexAddr)
			if !ok || !isResultSlice(p, ia.X.Type()) {
				return
			}
			for _, r := range kit.Referrers(ia) {
				switch u := r.(type) {
				case *ssa.Store:
					if u.Addr == ssa.Value(ia) {
						sites = append(sites, site{fn, ia, u})
					}
				case *ssa.FieldAddr:
					for _, rr := range kit.Referrers(u) {
						if st, ok := rr.(*ssa.Store); ok && st.Addr == ssa.Value(u) {
							sites = append(sites, site{fn, ia, st})
						}
					}
				}
			}
		})
	}
	var checkAligned func(fn *ssa.Function, resSlice, callSlice ssa.Value, depth int) (bool, string)
	checkAligned = func(fn *ssa.Function, resSlice, callSlice ssa.Value, depth int) (bool, string) {
		if depth > 3 {
			return false, "alignment chain too deep"
		}
		ros := nonNilOrigins(resSlice)
		if len(ros) != 1 {
			return false, fmt.Sprintf("result slice has %d possible origins", len(ros))
		}
		ro := ros[0]
		cs := kit.Strip(callSlice)
		if mk, ok := ro.(*ssa.MakeSlice); ok {
			if s := kit.LenOf(mk.Len); s != nil && kit.Strip(s) == cs {
				return true, "result slice is make([]RPCResult, len(S)) of the very slice being ranged"
			}
			return false, "result slice is sized by a different slice than the one whose positions index it"
		}
		rp, ok1 := ro.(*ssa.Parameter)
		cp, ok2 := cs.(*ssa.Parameter)
		if ok1 && ok2 && rp.Parent() == cp.Parent() {
			// obligation at every call site
			callee := rp.Parent()
			ri, ci := -1, -1
			for i, q := range callee.Params {
				if q == rp {
					ri = i
				}
				if q == cp {
					ci = i
				}
			}
			n := 0
			for _, s := range callersOf(p, calleeFullName(callee)) {
				n++
				args := s.Common().Args
				if ok, why := checkAligned(s.Parent(), args[ri], args[ci], depth+1); !ok {
					return false, fmt.Sprintf("at the call site %s: %s", p.Pos(s.Pos()), why)
				}
			}
			if n == 0 {
				return false, "no call site found to establish the alignment"
			}
			return true, fmt.Sprintf("both are parameters; aligned at all %d call sites", n)
		}
		return false, "ranged slice " + kit.Path(callSlice) + " and result slice " + kit.Path(resSlice) + " are not related"
	}
	judge := func(fn *ssa.Function, ia *ssa.IndexAddr, pos token.Pos, kind string, val ssa.Value) {
		idx := ia.Index
		verb := "written"
		if kind == "slot-load" {
			verb = "read"
		}
		// (a) map lookup
		if lk, ok := kit.Strip(idx).(*ssa.Lookup); ok && isIndexMap(lk.X.Type()) {
			good := true
			why := "indexed through the call->index map, keyed by " + kit.Path(lk.Index)
			// the map must be SendBatch's map (or a parameter bound to it)
			if !mapIsThe(p, lk.X, theMap, 0) {
				good, why = false, "the index map is not the one SendBatch filled"
			}
			// R3: a received result goes to the receiver's slot
			if good && val != nil {
				if from := receivedFrom(p, val); from != nil && !kit.Same(from, lk.Index) {
					good, why = false, "the result received from "+kit.Path(from)+".ResultChan() is stored into the slot of "+kit.Path(lk.Index)
				}
			}
			if good {
				c.OK(fn, kind, pos, why)
			} else {
				c.Bad(fn, kind, pos, "result slot "+verb+" with a wrong index: "+why, "")
			}
			return
		}
		// (b) aligned range index
		if sl, ok := rangeOfIndex(idx); ok {
			ok2, why := checkAligned(fn, ia.X, sl, 0)
			if ok2 {
				c.OK(fn, kind, pos, "indexed by the position in "+kit.Path(sl)+": "+why)
			} else {
				c.Bad(fn, kind, pos, "result slot "+verb+" by the position in a slice that is not aligned with the result slice (the i-th result describes another call): "+why, "")
			}
			return
		}
		c.Unk(fn, kind, pos, "result slot "+verb+" with an index of unrecognised provenance ("+kit.Path(idx)+")")
	}
	for _, s := range sites {
		judge(s.fn, s.ia, s.store.Pos(), "slot-store", s.store.Val)
	}
	// reads of result slots follow the same rule (hasServerError, the scatter of the per-round lookup errors)
	for _, fn := range p.Funcs {
		if !p.IsSubject(fn) {
			continue
		}
		kit.Instrs(fn, func(in ssa.Instruction) {
			ia, ok := in.(*ssa.IndexAddr)
			if !ok || !isResultSlice(p, ia.X.Type()) {
				return
			}
			isRead := false
			for _, r := range kit.Referrers(ia) {
				switch u := r.(type) {
				case *ssa.UnOp:
					isRead = isRead || u.Op == token.MUL
				case *ssa.FieldAddr:
					for _, rr := range kit.Referrers(u) {
						if l, ok := rr.(*ssa.UnOp); ok && l.Op == token.MUL {
							isRead = true
						}
					}
				}
			}
			if isRead {
				judge(fn, ia, ia.Pos(), "slot-load", nil)
			}
		})
	}

	if !c.Frozen {
		embed(c, "R6", "every call handed to a connection gets a response or an error of its own (the rules of C03, run as one rule here)", 30, runC03)
	}

	// ---- R5 ---------------------------------------------------------------
	c.StartRule("R5", "what is stored into a slot is a real outcome; every queued call gets one", 4)
	callsDroppedOnlyWhenTheirContextIsDone(c)
	batchHandedOverWhole(c)
	responseIndicesAreUnique(c)
	callIDDiscipline(c)
	unbufferedHandoff(c)
	clearedCallSlotsAreSkipped(c)
	callerBatchIsNotRewritten(c)
	queueingWatchesTheBatchContextItself(c)
	noResponseBufferRecycling(c)
	locateFailuresClearOK(c)
	dialStartsTheBatcher(c)
	for _, s := range sites {
		// (a) an error taken from a context is the error of the context that was seen done
		if fa, ok := s.store.Addr.(*ssa.FieldAddr); ok && kit.FieldVar(fa.X.Type(), fa.Field).Name() == "Error" {
			call, ok := kit.Root(s.store.Val).(*ssa.Call)
			if !ok || kit.CalleeName(call) != ctxErr {
				continue
			}
			y := call.Call.Value
			good := false
			for _, st := range selectArmsAt(s.store.Block()) {
				if dc, ok := kit.Root(st.Chan).(*ssa.Call); ok && kit.CalleeName(dc) == ctxDone && sameContext(dc.Call.Value, y) {
					good = true
				}
			}
			for _, f := range kit.FactsAt(s.store.Block()) {
				if cmp, ok := kit.CanonCmp(f.Cond, f.Pol); ok && cmp.Op == token.NEQ && kit.IsNilConst(cmp.Y) {
					if ec, ok := kit.Root(cmp.X).(*ssa.Call); ok && kit.CalleeName(ec) == ctxErr && sameContext(ec.Call.Value, y) {
						good = true
					}
				}
			}
			// or: a flag that is raised only in the arm that saw <-X.Done() is known to be up (one loop that waits
			// until the context is done and polls from then on)
			if !good {
				seenFlag := map[ssa.Value]bool{}
				var raisedOnlyOnDone func(v ssa.Value) bool
				raisedOnlyOnDone = func(v ssa.Value) bool {
					ph, ok := v.(*ssa.Phi)
					if !ok {
						return false
					}
					if seenFlag[ph] {
						return true
					}
					seenFlag[ph] = true
					for i, e := range ph.Edges {
						if k, isC := kit.BoolConst(e); isC {
							if !k {
								continue
							}
							onDone := false
							for _, st := range selectArmsAt(ph.Block().Preds[i]) {
								if dc, ok := kit.Root(st.Chan).(*ssa.Call); ok && kit.CalleeName(dc) == ctxDone && sameContext(dc.Call.Value, y) {
									onDone = true
								}
							}
							if !onDone {
								return false
							}
							continue
						}
						if !raisedOnlyOnDone(e) {
							return false
						}
					}
					return true
				}
				good = kit.OnAllWays(s.store.Block(), func(facts []kit.Fact) bool {
					for _, f := range facts {
						v, pol := kit.NormBool(f.Cond, f.Pol)
						if pol && raisedOnlyOnDone(v) {
							return true
						}
						// ... or this way comes straight out of the arm that saw <-X.Done()
						if bo, ok := f.Cond.(*ssa.BinOp); ok && bo.Op == token.EQL && f.Pol {
							if ex, ok := bo.X.(*ssa.Extract); ok && ex.Index == 0 {
								if sel, ok := ex.Tuple.(*ssa.Select); ok {
									if k, ok := kit.ConstInt(bo.Y); ok && int(k) < len(sel.States) {
										if dc, ok := kit.Root(sel.States[k].Chan).(*ssa.Call); ok && kit.CalleeName(dc) == ctxDone && sameContext(dc.Call.Value, y) {
											return true
										}
									}
								}
							}
						}
					}
					return false
				}, 0)
			}
			// or: a context that was seen done stays done. For a context that is the same value on every way (a
			// parameter, not the context of the loop's current call): no way from the entry reaches the store without
			// having passed an arm that received from its Done() channel or a test of its Err() that was not nil
			if !good {
				if _, isParam := kit.Root(y).(*ssa.Parameter); isParam {
					e := kit.PathFromEntry(s.fn, kit.PathQuery{
						Target: func(x ssa.Instruction) bool { return x == ssa.Instruction(s.store) },
						SkipEdge: func(from, to *ssa.BasicBlock) bool {
							for _, f := range kit.EdgeFacts(from, to) {
								if bo, ok := f.Cond.(*ssa.BinOp); ok && bo.Op == token.EQL && f.Pol {
									if ex, ok := bo.X.(*ssa.Extract); ok && ex.Index == 0 {
										if sel, ok := ex.Tuple.(*ssa.Select); ok {
											if k, ok := kit.ConstInt(bo.Y); ok && int(k) < len(sel.States) {
												if dc, ok := kit.Root(sel.States[k].Chan).(*ssa.Call); ok && kit.CalleeName(dc) == ctxDone && sameContext(dc.Call.Value, y) {
													return true
												}
											}
										}
									}
								}
								if cmp, ok := kit.CanonCmp(f.Cond, f.Pol); ok && cmp.Op == token.NEQ && kit.IsNilConst(cmp.Y) {
									if ec, ok := kit.Root(cmp.X).(*ssa.Call); ok && kit.CalleeName(ec) == ctxErr && sameContext(ec.Call.Value, y) {
										return true
									}
								}
							}
							return false
						},
					})
					good = e == nil
				}
			}
			// or: the store sits in a loop over S[low:] whose low bound is len(S) (no iteration)
			// unless it was lowered inside the arm that saw <-X.Done()
			if !good {
				if lk, ok := kit.Strip(s.ia.Index).(*ssa.Lookup); ok {
					if l, ok := kit.Root(lk.Index).(*ssa.UnOp); ok {
						if eia, ok := l.X.(*ssa.IndexAddr); ok {
							// the same loop written with an explicit counter: for i := low; i < len(S); i++
							if cnt, ok := kit.Strip(eia.Index).(*ssa.Phi); ok {
								if _, isSl := eia.X.(*ssa.Slice); !isSl {
									var init ssa.Value
									inc, bounded := false, false
									for _, e := range cnt.Edges {
										if bo, ok := e.(*ssa.BinOp); ok && bo.Op == token.ADD && bo.X == ssa.Value(cnt) {
											inc = true
											continue
										}
										init = e
									}
									for _, r := range kit.Referrers(cnt) {
										if cmp, ok := r.(*ssa.BinOp); ok && cmp.Op == token.LSS && cmp.X == ssa.Value(cnt) {
											if ln := kit.LenOf(kit.Root(cmp.Y)); ln != nil && kit.Same(ln, eia.X) {
												bounded = true
											}
										}
									}
									if inc && bounded && init != nil && len(cnt.Edges) == 2 {
										seen := map[ssa.Value]bool{}
										var lowOK func(v ssa.Value, pred *ssa.BasicBlock) bool
										lowOK = func(v ssa.Value, pred *ssa.BasicBlock) bool {
											if pred != nil {
												for _, st := range selectArmsAt(pred) {
													if dc, ok := kit.Root(st.Chan).(*ssa.Call); ok && kit.CalleeName(dc) == ctxDone && sameContext(dc.Call.Value, y) {
														return true
													}
												}
											}
											if ph, ok := v.(*ssa.Phi); ok {
												if seen[ph] {
													return true
												}
												seen[ph] = true
												for i, e := range ph.Edges {
													if !lowOK(e, ph.Block().Preds[i]) {
														return false
													}
												}
												return true
											}
											if ln := kit.LenOf(v); ln != nil && kit.Same(ln, eia.X) {
												return true
											}
											if pred == nil {
												return false
											}
											for _, st := range selectArmsAt(pred) {
												if dc, ok := kit.Root(st.Chan).(*ssa.Call); ok && kit.CalleeName(dc) == ctxDone && sameContext(dc.Call.Value, y) {
													return true
												}
											}
											return false
										}
										good = lowOK(init, nil)
									}
								}
							}
							if sl, ok := eia.X.(*ssa.Slice); ok && sl.Low != nil && sl.High == nil {
								seen := map[ssa.Value]bool{}
								var lowOK func(v ssa.Value, pred *ssa.BasicBlock) bool
								lowOK = func(v ssa.Value, pred *ssa.BasicBlock) bool {
									if pred != nil {
										for _, st := range selectArmsAt(pred) {
											if dc, ok := kit.Root(st.Chan).(*ssa.Call); ok && kit.CalleeName(dc) == ctxDone && sameContext(dc.Call.Value, y) {
												return true
											}
										}
									}
									if ph, ok := v.(*ssa.Phi); ok {
										if seen[ph] {
											return true
										}
										seen[ph] = true
										for i, e := range ph.Edges {
											if !lowOK(e, ph.Block().Preds[i]) {
												return false
											}
										}
										return true
									}
									if ln := kit.LenOf(v); ln != nil && kit.Same(ln, sl.X) {
										return true
									}
									if pred == nil {
										return false
									}
									for _, st := range selectArmsAt(pred) {
										if dc, ok := kit.Root(st.Chan).(*ssa.Call); ok && kit.CalleeName(dc) == ctxDone && sameContext(dc.Call.Value, y) {
											return true
										}
									}
									return false
								}
								good = lowOK(sl.Low, nil)
								if !good {
									// the same by facts: on every way to the place where rpcs[low:] is taken, either
									// <-X.Done() was received or low >= len(rpcs) (the range is empty: the store is not reached)
									slI, _ := ssa.Value(sl).(ssa.Instruction)
									if slI != nil {
										good = kit.OnAllWays(slI.Block(), func(facts []kit.Fact) bool {
											for _, f := range facts {
												if bo, ok := f.Cond.(*ssa.BinOp); ok && bo.Op == token.EQL && f.Pol {
													if ex, ok := bo.X.(*ssa.Extract); ok && ex.Index == 0 {
														if sel, ok := ex.Tuple.(*ssa.Select); ok {
															if k, ok := kit.ConstInt(bo.Y); ok && int(k) < len(sel.States) {
																if dc, ok := kit.Root(sel.States[k].Chan).(*ssa.Call); ok && kit.CalleeName(dc) == ctxDone && sameContext(dc.Call.Value, y) {
																	return true
																}
															}
														}
													}
												}
												if cmp, ok := kit.CanonCmp(f.Cond, f.Pol); ok && !cmp.Bytes && cmp.Op == token.GEQ && kit.Same(cmp.X, sl.Low) {
													if ln := kit.LenOf(cmp.Y); ln != nil && kit.Same(ln, sl.X) {
														return true
													}
												}
											}
											return false
										}, 0)
									}
								}
							}
						}
					}
				}
			}
			c.Check(good, s.fn, "context-error-is-of-done-context", s.store.Pos(), "Error = X.Err() where <-X.Done() was seen (so it is not nil)",
				"the slot of a call is given the Err() of a context that is not known to be done here: it can be nil, leaving the call with neither a response nor an error while the batch is reported as not all-OK")
			answerWinsOverEndedContext(c, s.fn, s.ia, s.store)
			continue
		}
		// (b) a whole result copied from another result slice is an error result
		if s.store.Addr == ssa.Value(s.ia) {
			ld, ok := kit.Root(s.store.Val).(*ssa.UnOp)
			if !ok || ld.Op != token.MUL {
				continue
			}
			src, ok := ld.X.(*ssa.IndexAddr)
			if !ok || !isResultSlice(p, src.X.Type()) {
				continue
			}
			good := false
			for _, f := range kit.FactsAt(s.store.Block()) {
				cmp, ok := kit.CanonCmp(f.Cond, f.Pol)
				if !ok || cmp.Op != token.NEQ || !kit.IsNilConst(cmp.Y) {
					continue
				}
				if el, ok := kit.Root(cmp.X).(*ssa.UnOp); ok {
					if efa, ok := el.X.(*ssa.FieldAddr); ok && kit.FieldVar(efa.X.Type(), efa.Field).Name() == "Error" {
						if eia, ok := efa.X.(*ssa.IndexAddr); ok && kit.Same(eia.X, src.X) && kit.Same(eia.Index, src.Index) {
							good = true
						}
					}
				}
			}
			c.Check(good, s.fn, "copy-only-error-results", s.store.Pos(), "a result of the location step is copied over a slot only when it carries an error",
				"a slot is overwritten with the location step's result although that carries no error: the outcome the call already had (its last error, or NotExecutedError) is replaced by an empty result - neither a response nor an error")
		}
	}
}

// successFlag checks rule R4 on SendBatch.
func successFlag(c *kit.Ctx, sb *ssa.Function, batchParam *ssa.Parameter) {
	allOK := resultAlloc(sb, 1)
	var hdr *ssa.BasicBlock
	kit.Instrs(sb, func(in ssa.Instruction) {
		if ph, ok := in.(*ssa.Phi); ok && hdr == nil {
			for _, e := range ph.Edges {
				if e == ssa.Value(batchParam) && ph.Type() == batchParam.Type() {
					hdr = ph.Block()
				}
			}
		}
	})
	if allOK == nil || hdr == nil {
		c.Unk(sb, "flag-shape", sb.Pos(), "SendBatch no longer has the named success flag and a retry loop carrying the batch")
		return
	}
	inLoop := func(b *ssa.BasicBlock) bool {
		if !hdr.Dominates(b) {
			return false
		}
		if b == hdr {
			return true
		}
		return kit.PathFromBlock(b, kit.PathQuery{Target: func(x ssa.Instruction) bool { return x.Block() == hdr }}) != nil
	}
	// stores to allOK (in SendBatch and its literals) that lie inside the loop
	var sticky *ssa.Alloc
	var stickyReg ssa.Value
	n := 0
	var visit func(f *ssa.Function, addr ssa.Value, loopCtx bool)
	visit = func(f *ssa.Function, addr ssa.Value, loopCtx bool) {
		kit.Instrs(f, func(in ssa.Instruction) {
			switch s := in.(type) {
			case *ssa.Store:
				if s.Addr != addr {
					return
				}
				if f == sb && !inLoop(s.Block()) {
					return
				}
				if f != sb && !loopCtx {
					return
				}
				n++
				if k, ok := s.Val.(*ssa.Const); ok && k.Value != nil {
					c.Check(k.Value.ExactString() == "false", f, "flag-store", s.Pos(), "allOK = false", "allOK is set to true unconditionally inside the retry loop: an earlier fatal error is forgotten")
					return
				}
				// allOK = !sticky
				if u, ok := s.Val.(*ssa.UnOp); ok && u.Op == token.NOT {
					if l, ok := u.X.(*ssa.UnOp); ok && l.Op == token.MUL {
						if a, ok := l.X.(*ssa.Alloc); ok {
							sticky = a
							// the optimistic value only stands for the round that follows: no way from here
							// to a return without going round the loop (where failures clear it again)
							e := kit.PathFrom(s, kit.PathQuery{
								Target: func(x ssa.Instruction) bool { _, isRet := x.(*ssa.Return); return isRet },
								Stop:   func(x ssa.Instruction) bool { return x.Block() == hdr },
							})
							c.Check(e == nil && f == sb, f, "flag-store", s.Pos(), "allOK = !"+a.Comment+" right before the next round (checked below: sticky across rounds)",
								"allOK is reset to 'no fatal error seen' at a point from which SendBatch can still return without another round (e.g. when the back-off wait is cancelled): it reports success although calls still carry their retryable errors: "+c.BlockPath(e))
							return
						}
					}
				}
				// allOK = !sticky where sticky lives in a register (no closure captures it)
				if u, ok := s.Val.(*ssa.UnOp); ok && u.Op == token.NOT {
					if _, isB := u.X.Type().Underlying().(*types.Basic); isB && f == sb {
						if _, isLoad := u.X.(*ssa.UnOp); !isLoad {
							stickyReg = u.X
							e := kit.PathFrom(s, kit.PathQuery{
								Target: func(x ssa.Instruction) bool { _, isRet := x.(*ssa.Return); return isRet },
								Stop:   func(x ssa.Instruction) bool { return x.Block() == hdr },
							})
							c.Check(e == nil, f, "flag-store", s.Pos(), "allOK = !flag right before the next round (checked below: the flag is sticky across rounds)",
								"allOK is reset to 'no fatal error seen' at a point from which SendBatch can still return without another round (e.g. when the back-off wait is cancelled): it reports success although calls still carry their retryable errors: "+c.BlockPath(e))
							return
						}
					}
				}
				c.Unk(f, "flag-store", s.Pos(), "allOK assigned from an unrecognised expression inside the retry loop")
			case *ssa.MakeClosure:
				for i, b := range s.Bindings {
					if b == addr {
						cf := s.Fn.(*ssa.Function)
						visit(cf, cf.FreeVars[i], loopCtx || (f == sb && inLoop(s.Block())))
					}
				}
			}
		})
	}
	visit(sb, allOK, false)
	if n == 0 {
		c.Unk(sb, "flag-store", sb.Pos(), "allOK is never updated inside the retry loop")
	}
	if sticky == nil && stickyReg != nil {
		stickyInRegister(c, sb, hdr, inLoop, stickyReg)
		return
	}
	if sticky == nil {
		c.Bad(sb, "sticky-flag", sb.Pos(), "allOK is not derived from a flag that remembers fatal errors of earlier rounds", "")
		return
	}
	c.Check(sticky.Parent() == sb && !inLoop(sticky.Block()), sb, "sticky-declared-outside-loop", sticky.Pos(), "the remembered-fatal-error flag lives outside the retry loop",
		"the flag that remembers a non-retryable error is (re)declared inside the retry loop: a fatal error of an earlier round is forgotten and SendBatch reports success although a result carries an error")
	// every store to sticky preserves true
	okStores, ns := true, 0
	var stickyStores []*ssa.Store
	var visit2 func(f *ssa.Function, addr ssa.Value)
	visit2 = func(f *ssa.Function, addr ssa.Value) {
		kit.Instrs(f, func(in ssa.Instruction) {
			switch s := in.(type) {
			case *ssa.Store:
				if s.Addr != addr {
					return
				}
				ns++
				stickyStores = append(stickyStores, s)
				ph, ok := s.Val.(*ssa.Phi)
				pres := false
				if kc, isC := s.Val.(*ssa.Const); isC && kc.Value != nil && kc.Value.ExactString() == "true" {
					pres = true // if x { flag = true }
				}
				if ok {
					for k, e := range ph.Edges {
						if kc, ok := e.(*ssa.Const); ok && kc.Value != nil && kc.Value.ExactString() == "true" {
							pred := ph.Block().Preds[k]
							if iff, ok := pred.Instrs[len(pred.Instrs)-1].(*ssa.If); ok {
								if l, ok := iff.Cond.(*ssa.UnOp); ok && l.X == addr && pred.Succs[0] == ph.Block() {
									pres = true
								}
							}
						}
					}
				}
				if !pres {
					okStores = false
				}
			case *ssa.MakeClosure:
				for i, b := range s.Bindings {
					if b == addr {
						cf := s.Fn.(*ssa.Function)
						visit2(cf, cf.FreeVars[i])
					}
				}
			}
		})
	}
	visit2(sb, sticky)
	c.Check(okStores && ns > 0, sb, "sticky-only-ored", sticky.Pos(), "the flag is only ever assigned flag || x", "the remembered-fatal-error flag can be cleared: it is assigned something other than itself OR-ed with the latest result")
	failedCallsRemembered(c, sb, sticky, stickyStores)
	receivedResultIsExamined(c)
}

// failedCallsRemembered: the wait function reports through one of its boolean results that a call failed
// without being handed back for a retry; SendBatch ORs that result into the sticky flag. Every place in
// the wait function that writes an error into a result slot itself (rather than storing a received
// result, whose classification is C04/C12) must raise that result on its way to the merge - otherwise a
// later round in which the retried calls succeed makes SendBatch report success over that error. Exempt:
// the error of the batch context, after which SendBatch leaves its loop without resetting the flag.
func failedCallsRemembered(c *kit.Ctx, sb *ssa.Function, sticky *ssa.Alloc, stickyStores []*ssa.Store) {
	failedCallsRememberedK(c, sb, sticky, stickyStores, -1, nil)
}

// failedCallsRememberedK: knownK >= 0 and resetVal != nil when the sticky flag lives in a register (stickyInRegister
// found which result of waitForCompletion feeds it, and resetVal is the value whose negation resets allOK).
func failedCallsRememberedK(c *kit.Ctx, sb *ssa.Function, sticky *ssa.Alloc, stickyStores []*ssa.Store, knownK int, resetVal ssa.Value) {
	p := c.P
	wfcName := kit.M("", "*client", "waitForCompletion")
	wfc := c.Anchor("", "client", "waitForCompletion")
	if wfc == nil {
		return
	}
	// which result feeds the sticky flag
	k := knownK
	for _, f := range kit.WithAnon(sb) {
		for _, call := range kit.Calls(f, wfcName) {
			cv := call.Value()
			if cv == nil {
				continue
			}
			for _, r := range kit.Referrers(cv) {
				ex, ok := r.(*ssa.Extract)
				if !ok {
					continue
				}
				for _, st := range stickyStores {
					vals := []ssa.Value{st.Val}
					if ph, ok := st.Val.(*ssa.Phi); ok {
						vals = append(vals, ph.Edges...)
					}
					if bo, ok := st.Val.(*ssa.BinOp); ok {
						vals = append(vals, bo.X, bo.Y)
					}
					for _, v := range vals {
						if kit.Root(v) == ssa.Value(ex) {
							k = ex.Index
						}
					}
					// if x { flag = true }
					if kc, ok := st.Val.(*ssa.Const); ok && kc.Value != nil && kc.Value.ExactString() == "true" {
						for _, f := range kit.FactsAt(st.Block()) {
							if f.Pol && kit.Root(f.Cond) == ssa.Value(ex) {
								k = ex.Index
							}
						}
					}
				}
			}
		}
	}
	if k < 0 {
		c.Unk(sb, "remembered-result", sb.Pos(), "no result of waitForCompletion flows into the flag that remembers fatal errors")
		return
	}
	var ctxParam, resParam *ssa.Parameter
	for _, pa := range wfc.Params {
		if isCtxType(pa) && ctxParam == nil {
			ctxParam = pa
		}
		if isResultSlice(p, pa.Type()) {
			resParam = pa
		}
	}
	if ctxParam == nil || resParam == nil {
		c.Unk(wfc, "remembered-result", wfc.Pos(), "waitForCompletion no longer takes the batch context and the result slice")
		return
	}
	inWeb := map[ssa.Value]bool{}
	var grow func(v ssa.Value)
	grow = func(v ssa.Value) {
		if inWeb[v] {
			return
		}
		inWeb[v] = true
		if ph, ok := v.(*ssa.Phi); ok {
			for _, e := range ph.Edges {
				grow(e)
			}
		}
	}
	kit.Instrs(wfc, func(in ssa.Instruction) {
		if r, ok := in.(*ssa.Return); ok && k < len(r.Results) {
			grow(kit.Res(r, k))
		}
	})
	n := 0
	kit.Instrs(wfc, func(in ssa.Instruction) {
		st, ok := in.(*ssa.Store)
		if !ok {
			return
		}
		fa, ok := st.Addr.(*ssa.FieldAddr)
		if !ok || !kit.IsErrorType(st.Val.Type()) {
			return
		}
		ia, ok := fa.X.(*ssa.IndexAddr)
		if !ok || !isResultSlice(p, ia.X.Type()) || kit.Root(ia.X) != ssa.Value(resParam) {
			return
		}
		n++
		if call, ok := kit.Root(st.Val).(*ssa.Call); ok && call.Call.IsInvoke() && call.Call.Method.Name() == "Err" && kit.Root(call.Call.Value) == ssa.Value(ctxParam) {
			c.OK(wfc, "failed-call-remembered", st.Pos(), "error of the batch context: SendBatch leaves its loop on ctx.Err() != nil before the flag is reset (checked as batch-context-ends-the-loop)")
			return
		}
		// the merge this store's block runs into
		b := st.Block()
		var merge, pred *ssa.BasicBlock
		for steps := 0; steps < 8 && len(b.Succs) == 1; steps++ {
			if len(b.Succs[0].Preds) > 1 {
				merge, pred = b.Succs[0], b
				break
			}
			b = b.Succs[0]
		}
		good := false
		if merge != nil {
			for _, x := range merge.Instrs {
				ph, ok := x.(*ssa.Phi)
				if !ok {
					break
				}
				if !inWeb[ph] {
					continue
				}
				for i, q := range merge.Preds {
					if q == pred {
						if kc, ok := kit.Root(ph.Edges[i]).(*ssa.Const); ok && kc.Value != nil && kc.Value.ExactString() == "true" {
							good = true
						}
					}
				}
			}
		}
		c.Check(good, wfc, "failed-call-remembered", st.Pos(), "the call that gets this error is not retried and result "+fmt.Sprint(k)+" (ORed into the sticky flag by SendBatch) is raised on this way",
			"a call is given an error here without being retried and without raising the 'fatal error seen' result: when other calls of the round are retried and then succeed, SendBatch reports success although this result carries an error")
	})
	if n == 0 {
		c.Unk(wfc, "failed-call-remembered", wfc.Pos(), "waitForCompletion no longer writes the context errors into the result slots")
	}
	// the exemption's precondition: SendBatch resets the flag only where its own context is not done
	nReset := 0
	defer func() {
		if nReset == 0 {
			c.Unk(sb, "batch-context-ends-the-loop", sb.Pos(), "the place where SendBatch resets its success flag for the next round was not found")
		}
	}()
	for _, f := range kit.WithAnon(sb) {
		kit.Instrs(f, func(in ssa.Instruction) {
			st, ok := in.(*ssa.Store)
			if !ok || f != sb {
				return
			}
			u, ok := st.Val.(*ssa.UnOp)
			if !ok || u.Op != token.NOT {
				return
			}
			if resetVal != nil {
				if u.X != resetVal {
					return
				}
			} else if l, ok := u.X.(*ssa.UnOp); !ok || l.Op != token.MUL || l.X != ssa.Value(sticky) {
				return
			}
			nReset++
			good := false
			for _, fact := range kit.FactsAt(st.Block()) {
				cmp, ok := kit.CanonCmp(fact.Cond, fact.Pol)
				if !ok || cmp.Op != token.EQL || !kit.IsNilConst(cmp.Y) {
					continue
				}
				if call, ok := kit.Root(cmp.X).(*ssa.Call); ok && call.Call.IsInvoke() && call.Call.Method.Name() == "Err" && isCtxType(call.Call.Value) {
					if cc, isCall := kit.Root(call.Call.Value).(*ssa.Call); isCall && kit.CalleeName(cc) == hrpcCall+"Context" {
						continue
					}
					good = true
				}
			}
			c.Check(good, sb, "batch-context-ends-the-loop", st.Pos(), "the flag is reset only where ctx.Err() == nil", "SendBatch can go into another round (and reset its success flag) although its own context is done: the calls that were given the context error are forgotten")
		})
	}
}

func calleeFullName(fn *ssa.Function) string { return kit.KnownFullName(fn) }

// mapIsThe: v is the map value the (or a parameter that every call site binds to it).
func mapIsThe(p *kit.Prog, v ssa.Value, the ssa.Value, depth int) bool {
	if the == nil || depth > 3 {
		return false
	}
	os := nonNilOrigins(v)
	if len(os) != 1 {
		return false
	}
	if os[0] == the {
		return true
	}
	pa, ok := os[0].(*ssa.Parameter)
	if !ok {
		return false
	}
	callee := pa.Parent()
	idx := -1
	for i, q := range callee.Params {
		if q == pa {
			idx = i
		}
	}
	n := 0
	for _, s := range callersOf(p, calleeFullName(callee)) {
		n++
		if !mapIsThe(p, s.Common().Args[idx], the, depth+1) {
			return false
		}
	}
	return n > 0
}

// receivedFrom: if v is (derived from) a value received from X.ResultChan(), returns X.
func receivedFrom(p *kit.Prog, v ssa.Value) ssa.Value {
	v = kit.Root(v)
	if ex, ok := v.(*ssa.Extract); ok {
		if sel, ok := ex.Tuple.(*ssa.Select); ok {
			// select result index: 0 index, 1 recvOk, 2.. received values in order of recv states
			k := 2
			for _, st := range sel.States {
				if st.Dir != types.RecvOnly {
					continue
				}
				if k == ex.Index {
					if call, ok := st.Chan.(*ssa.Call); ok {
						if recv, ok := p.IsMethodOn(call, "hrpc", "Call", "ResultChan"); ok {
							return recv
						}
					}
				}
				k++
			}
		}
	}
	if u, ok := v.(*ssa.UnOp); ok && u.Op == token.ARROW {
		if call, ok := u.X.(*ssa.Call); ok {
			if recv, ok := p.IsMethodOn(call, "hrpc", "Call", "ResultChan"); ok {
				return recv
			}
		}
	}
	return nil
}

// stickyInRegister: the flag that remembers fatal errors across the rounds of SendBatch when no closure captures it
// (the result-collecting loop was moved into a helper that takes and returns it): it is a web of phis. Every value
// that flows into the web is the constant true, the constant false from before the loop, or a value taken only where
// the flag was false (flag || x) - so once true it stays true; one of those values is a result of waitForCompletion.
func stickyInRegister(c *kit.Ctx, sb *ssa.Function, hdr *ssa.BasicBlock, inLoop func(*ssa.BasicBlock) bool, flag ssa.Value) {
	web := map[ssa.Value]bool{}
	type leaf struct {
		ph  *ssa.Phi
		i   int
		val ssa.Value
	}
	var leaves []leaf
	var grow func(v ssa.Value)
	grow = func(v ssa.Value) {
		v = kit.Strip(v)
		if web[v] {
			return
		}
		ph, ok := v.(*ssa.Phi)
		if !ok {
			return
		}
		web[v] = true
		for i, e := range ph.Edges {
			e = kit.Strip(e)
			if _, isPhi := e.(*ssa.Phi); isPhi {
				grow(e)
			} else {
				leaves = append(leaves, leaf{ph, i, e})
			}
		}
	}
	grow(flag)
	if len(web) == 0 {
		c.Bad(sb, "sticky-flag", sb.Pos(), "allOK is not derived from a flag that remembers fatal errors of earlier rounds", "")
		return
	}
	carried := false
	for v := range web {
		if v.(*ssa.Phi).Block() == hdr {
			carried = true
		}
	}
	c.Check(carried, sb, "sticky-declared-outside-loop", flag.Pos(), "the remembered-fatal-error flag is carried from round to round",
		"the flag that remembers a non-retryable error is (re)declared inside the retry loop: a fatal error of an earlier round is forgotten and SendBatch reports success although a result carries an error")
	wfcName := kit.M("", "*client", "waitForCompletion")
	k := -1
	okOred := true
	for _, lf := range leaves {
		pred := lf.ph.Block().Preds[lf.i]
		if val, isC := kit.BoolConst(lf.val); isC {
			if !val && inLoop(pred) {
				okOred = false // cleared inside the loop
			}
			if val && k < 0 {
				// if x { flag = true }: x may itself be such a web (the helper's own "unretryable" result)
				for _, f := range append(kit.FactsAt(pred), kit.EdgeFacts(pred, lf.ph.Block())...) {
					cond, pol := kit.NormBool(f.Cond, f.Pol)
					if pol {
						if kk := wfcResultFeeding(cond, wfcName, 0); kk >= 0 {
							k = kk
						}
					}
				}
			}
			continue
		}
		// taken only where the flag was false
		guarded := false
		for _, f := range append(kit.FactsAt(pred), kit.EdgeFacts(pred, lf.ph.Block())...) {
			cond, pol := kit.NormBool(f.Cond, f.Pol)
			if !pol && web[kit.Strip(cond)] {
				guarded = true
			}
		}
		if !guarded {
			okOred = false
		}
		if ex, ok := kit.Root(lf.val).(*ssa.Extract); ok {
			if call, ok := ex.Tuple.(*ssa.Call); ok && kit.CalleeName(call) == wfcName {
				k = ex.Index
			}
		}
	}
	c.Check(okOred, sb, "sticky-only-ored", flag.Pos(), "the flag is only ever assigned flag || x", "the remembered-fatal-error flag can be cleared: it is assigned something other than itself OR-ed with the latest result")
	if k < 0 {
		c.Unk(sb, "remembered-result", sb.Pos(), "no result of waitForCompletion flows into the flag that remembers fatal errors")
		return
	}
	failedCallsRememberedK(c, sb, nil, nil, k, flag)
	receivedResultIsExamined(c)
}

// wfcResultFeeding: v is (or is a web of phis fed by) result k of a waitForCompletion call; -1 otherwise.
func wfcResultFeeding(v ssa.Value, wfcName string, depth int) int {
	v = kit.Strip(v)
	if ex, ok := kit.Root(v).(*ssa.Extract); ok {
		if call, ok := ex.Tuple.(*ssa.Call); ok && kit.CalleeName(call) == wfcName {
			return ex.Index
		}
	}
	ph, ok := v.(*ssa.Phi)
	if !ok || depth > 4 {
		return -1
	}
	for _, e := range ph.Edges {
		if e == ssa.Value(ph) {
			continue
		}
		if k := wfcResultFeeding(e, wfcName, depth+1); k >= 0 {
			return k
		}
	}
	return -1
}

// answerWinsOverEndedContext: where the function that collects the answers of a batch writes a context error into
// the slot of a call, no answer of that call is waiting: every way to the store comes out of the default of a
// non-blocking select that polled the call's ResultChan(). A blocking select picks among its ready cases at random,
// so the arm that saw <-X.Done() says nothing about the result channel: the answer may have arrived before the
// context ended, and a call that succeeded would lose its response to "context canceled". C07.R5 (F30).
func answerWinsOverEndedContext(c *kit.Ctx, fn *ssa.Function, ia *ssa.IndexAddr, store *ssa.Store) {
	p := c.P
	resultChanOf := func(st *ssa.SelectState) ssa.Value {
		if st.Dir != types.RecvOnly {
			return nil
		}
		call, ok := kit.Root(st.Chan).(*ssa.Call)
		if !ok {
			return nil
		}
		if recv, ok := p.IsMethodOn(call, "hrpc", "Call", "ResultChan"); ok {
			return recv
		}
		return nil
	}
	// only in functions that wait for answers (somebody may have answered)
	waits := false
	kit.Instrs(fn, func(in ssa.Instruction) {
		if sel, ok := in.(*ssa.Select); ok {
			for _, st := range sel.States {
				if resultChanOf(st) != nil {
					waits = true
				}
			}
		}
	})
	if !waits {
		return
	}
	var slotCall ssa.Value
	if lk, ok := kit.Strip(ia.Index).(*ssa.Lookup); ok {
		slotCall = kit.Root(lk.Index)
	}
	polled := func(facts []kit.Fact) bool {
		notTaken := map[*ssa.Select]map[int64]bool{}
		for _, f := range facts {
			bo, ok := f.Cond.(*ssa.BinOp)
			if !ok || bo.Op != token.EQL || f.Pol {
				continue
			}
			ex, ok := bo.X.(*ssa.Extract)
			if !ok || ex.Index != 0 {
				continue
			}
			sel, ok := ex.Tuple.(*ssa.Select)
			if !ok || sel.Blocking {
				continue
			}
			if k, ok := kit.ConstInt(bo.Y); ok {
				if notTaken[sel] == nil {
					notTaken[sel] = map[int64]bool{}
				}
				notTaken[sel][int64(k)] = true
			}
		}
		for sel, ks := range notTaken {
			if len(ks) != len(sel.States) {
				continue
			}
			for _, st := range sel.States {
				if r := resultChanOf(st); r != nil && (slotCall == nil || kit.Same(kit.Root(r), slotCall)) {
					return true
				}
			}
		}
		return false
	}
	c.Check(kit.OnAllWays(store.Block(), polled, 0), fn, "answer-wins-over-ended-context", store.Pos(),
		"a context error goes into the slot only out of the default of a non-blocking poll of the call's ResultChan()",
		"the slot of a call is given a context error on a way that did not poll the call's ResultChan(): a blocking select picks among ready cases at random, so when the answer arrived before the context ended the call that succeeded loses its response (and its nil error) to the context error")
}
