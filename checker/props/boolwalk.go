package props

import (
	"go/token"

	"golang.org/x/tools/go/ssa"

	"gohbaseverif/kit"
)

// atomClassifier maps an atomic branch condition to a named atom and the
// polarity with which the condition states it.
type atomClassifier func(cond ssa.Value) (name string, pol bool, ok bool)

func evalAtom(cond ssa.Value, cl atomClassifier, assign map[string]bool) (bool, bool) {
	neg := false
	for {
		if u, ok := cond.(*ssa.UnOp); ok && u.Op == token.NOT {
			cond = u.X
			neg = !neg
			continue
		}
		break
	}
	if k, ok := cond.(*ssa.Const); ok && k.Value != nil {
		v := k.Value.ExactString() == "true"
		if neg {
			v = !v
		}
		return v, true
	}
	name, pol, ok := cl(cond)
	if !ok {
		return false, false
	}
	v := assign[name]
	if !pol {
		v = !v
	}
	if neg {
		v = !v
	}
	return v, true
}

// boolFuncTable evaluates a straight (loop-free) boolean function under every
// assignment of the given atoms by walking its CFG; returns the truth table
// keyed by assignment bitmask, or the first unclassifiable condition.
func boolFuncTable(fn *ssa.Function, atoms []string, cl atomClassifier) (map[int]bool, string) {
	out := map[int]bool{}
	for mask := 0; mask < 1<<len(atoms); mask++ {
		assign := map[string]bool{}
		for i, a := range atoms {
			assign[a] = mask&(1<<i) != 0
		}
		env := map[*ssa.Phi]ssa.Value{}
		b := fn.Blocks[0]
		var prev *ssa.BasicBlock
		done := false
		for steps := 0; steps < 200 && !done; steps++ {
			for _, in := range b.Instrs {
				if ph, ok := in.(*ssa.Phi); ok {
					for k, p := range b.Preds {
						if p == prev {
							v := ph.Edges[k]
							if q, ok := v.(*ssa.Phi); ok {
								if r, ok := env[q]; ok {
									v = r
								}
							}
							env[ph] = v
						}
					}
					continue
				}
				switch t := in.(type) {
				case *ssa.If:
					val, ok := evalAtom(t.Cond, cl, assign)
					if !ok {
						return nil, t.Cond.String()
					}
					prev = b
					if val {
						b = b.Succs[0]
					} else {
						b = b.Succs[1]
					}
				case *ssa.Jump:
					prev = b
					b = b.Succs[0]
				case *ssa.Return:
					v := kit.Res(t, 0)
					if ph, ok := v.(*ssa.Phi); ok {
						if r, ok := env[ph]; ok {
							v = r
						}
					}
					val, ok := evalAtom(v, cl, assign)
					if !ok {
						return nil, v.String()
					}
					out[mask] = val
					done = true
				case *ssa.Panic:
					return nil, "panic"
				}
				if _, isCtl := in.(*ssa.If); isCtl {
					break
				}
				if _, isCtl := in.(*ssa.Jump); isCtl {
					break
				}
				if done {
					break
				}
			}
		}
		if !done {
			return nil, "no return reached"
		}
	}
	return out, ""
}
