package props

import (
	"go/token"

	"golang.org/x/tools/go/ssa"

	"gohbaseverif/kit"
)

// atomClassifier maps an atomic branch condition to a named atom and the
// polarity with which the condition states it.
type atomClassifier func(cond ssa.Value) (name string, pol bool, ok bool)

// boolHelpers, when set by a rule, lets the walk look into a boolean helper of the module (a side-effect free
// function the predicate calls, e.g. startsBeforeStop(a.StartKey(), b.StopKey())): the helper's body is
// walked with the same atoms, bind is told which value each parameter stands for while it is walked.
type boolHelpers struct {
	bind  func(params []*ssa.Parameter, args []ssa.Value) (unbind func())
	depth int
	// env: the value every phi passed so far received on the way taken (a condition computed into a local
	// - sameTable := a && b - is a phi by the time it is tested)
	env map[*ssa.Phi]ssa.Value
}

func evalAtom(cond ssa.Value, cl atomClassifier, assign map[string]bool) (bool, bool) {
	return evalAtomH(cond, cl, assign, nil)
}

func evalAtomH(cond ssa.Value, cl atomClassifier, assign map[string]bool, h *boolHelpers) (bool, bool) {
	neg := false
	for n := 0; n < 16; n++ {
		if u, ok := cond.(*ssa.UnOp); ok && u.Op == token.NOT {
			cond = u.X
			neg = !neg
			continue
		}
		if ph, ok := cond.(*ssa.Phi); ok && h != nil && h.env != nil {
			if v, ok := h.env[ph]; ok && v != cond {
				cond = v
				continue
			}
		}
		break
	}
	if k, ok := cond.(*ssa.Const); ok && k.Value != nil {
		v := k.Value.ExactString() == "true"
		if neg {
			v = !v
		}
		return v, true
	}
	name, pol, ok := cl(cond)
	if !ok {
		call, isCall := cond.(*ssa.Call)
		if !isCall || h == nil || h.bind == nil || h.depth > 2 {
			return false, false
		}
		g := call.Call.StaticCallee()
		if g == nil || call.Call.IsInvoke() || len(g.Blocks) == 0 || g.Signature.Results().Len() != 1 || !sideEffectFree(g) {
			return false, false
		}
		unbind := h.bind(g.Params, call.Call.Args)
		h.depth++
		saved := h.env
		v, ok := boolFuncEval(g, assign, cl, h)
		h.env = saved
		h.depth--
		unbind()
		if !ok {
			return false, false
		}
		if neg {
			v = !v
		}
		return v, true
	}
	v := assign[name]
	if !pol {
		v = !v
	}
	if neg {
		v = !v
	}
	return v, true
}

// sideEffectFree: the function stores nothing, starts nothing, defers nothing and sends nothing.
func sideEffectFree(fn *ssa.Function) bool {
	ok := true
	kit.Instrs(fn, func(in ssa.Instruction) {
		switch in.(type) {
		case *ssa.Store, *ssa.MapUpdate, *ssa.Send, *ssa.Go, *ssa.Defer, *ssa.Panic, *ssa.Select, *ssa.MakeClosure:
			ok = false
		}
	})
	return ok && len(fn.AnonFuncs) == 0
}

// boolFuncEval walks fn under one assignment of the atoms.
func boolFuncEval(fn *ssa.Function, assign map[string]bool, cl atomClassifier, h *boolHelpers) (bool, bool) {
	env := map[*ssa.Phi]ssa.Value{}
	if h != nil {
		h.env = env
	}
	b := fn.Blocks[0]
	var prev *ssa.BasicBlock
	for steps := 0; steps < 200; steps++ {
		var next *ssa.BasicBlock
		for _, in := range b.Instrs {
			if ph, ok := in.(*ssa.Phi); ok {
				for k, p := range b.Preds {
					if p == prev {
						v := ph.Edges[k]
						if q, ok := v.(*ssa.Phi); ok {
							if r, ok := env[q]; ok {
								v = r
							}
						}
						env[ph] = v
					}
				}
				continue
			}
			switch t := in.(type) {
			case *ssa.If:
				val, ok := evalAtomH(t.Cond, cl, assign, h)
				if !ok {
					return false, false
				}
				if val {
					next = b.Succs[0]
				} else {
					next = b.Succs[1]
				}
			case *ssa.Jump:
				next = b.Succs[0]
			case *ssa.Return:
				v := kit.Res(t, 0)
				if ph, ok := v.(*ssa.Phi); ok {
					if r, ok := env[ph]; ok {
						v = r
					}
				}
				return evalAtomH(v, cl, assign, h)
			case *ssa.Panic:
				return false, false
			}
			if next != nil {
				break
			}
		}
		if next == nil {
			return false, false
		}
		prev, b = b, next
	}
	return false, false
}

// boolFuncTable evaluates a straight (loop-free) boolean function under every
// assignment of the given atoms by walking its CFG; returns the truth table
// keyed by assignment bitmask, or the first unclassifiable condition.
func boolFuncTable(fn *ssa.Function, atoms []string, cl atomClassifier) (map[int]bool, string) {
	out := map[int]bool{}
	for mask := 0; mask < 1<<len(atoms); mask++ {
		assign := map[string]bool{}
		for i, a := range atoms {
			assign[a] = mask&(1<<i) != 0
		}
		env := map[*ssa.Phi]ssa.Value{}
		b := fn.Blocks[0]
		var prev *ssa.BasicBlock
		done := false
		for steps := 0; steps < 200 && !done; steps++ {
			for _, in := range b.Instrs {
				if ph, ok := in.(*ssa.Phi); ok {
					for k, p := range b.Preds {
						if p == prev {
							v := ph.Edges[k]
							if q, ok := v.(*ssa.Phi); ok {
								if r, ok := env[q]; ok {
									v = r
								}
							}
							env[ph] = v
						}
					}
					continue
				}
				switch t := in.(type) {
				case *ssa.If:
					val, ok := evalAtom(t.Cond, cl, assign)
					if !ok {
						return nil, t.Cond.String()
					}
					prev = b
					if val {
						b = b.Succs[0]
					} else {
						b = b.Succs[1]
					}
				case *ssa.Jump:
					prev = b
					b = b.Succs[0]
				case *ssa.Return:
					v := kit.Res(t, 0)
					if ph, ok := v.(*ssa.Phi); ok {
						if r, ok := env[ph]; ok {
							v = r
						}
					}
					val, ok := evalAtom(v, cl, assign)
					if !ok {
						return nil, v.String()
					}
					out[mask] = val
					done = true
				case *ssa.Panic:
					return nil, "panic"
				}
				if _, isCtl := in.(*ssa.If); isCtl {
					break
				}
				if _, isCtl := in.(*ssa.Jump); isCtl {
					break
				}
				if done {
					break
				}
			}
		}
		if !done {
			return nil, "no return reached"
		}
	}
	return out, ""
}

// boolFuncTableH is boolFuncTable that looks into boolean helpers (see boolHelpers).
func boolFuncTableH(fn *ssa.Function, atoms []string, cl atomClassifier, h *boolHelpers) (map[int]bool, string) {
	tbl, bad := boolFuncTable(fn, atoms, cl)
	if tbl != nil {
		return tbl, bad
	}
	if h == nil {
		h = &boolHelpers{}
	}
	out := map[int]bool{}
	for mask := 0; mask < 1<<len(atoms); mask++ {
		assign := map[string]bool{}
		for i, a := range atoms {
			assign[a] = mask&(1<<i) != 0
		}
		v, ok := boolFuncEval(fn, assign, cl, h)
		if !ok {
			return nil, bad
		}
		out[mask] = v
	}
	return out, ""
}
