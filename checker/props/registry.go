// Package props holds the rule instances per property.
package props

import (
	"os"

	"gohbaseverif/kit"
)

// Property is one decidable property.
type Property struct {
	Title       string
	Explanation string // what is decided (goes into the evidence)
	Residue     string // what is not decided
	Technique   string // deciding method (MANIFEST technique)
	Run         func(c *kit.Ctx)
}

// Registry maps property ids to their rule sets.
var Registry = map[string]*Property{}

func register(id string, p *Property) { Registry[id] = p }

// NotApplicable lists the properties that are not claimed, with the reason.
var NotApplicable = map[string]string{
	"C16": "The property is about the sign of a comparator over all pairs/triples of byte strings (antisymmetry, transitivity, agreement with the (table, start key, id) tuple order). Its truth lies in index arithmetic over data-dependent comma positions, not in any pairing, ordering, ownership or exhaustiveness shape of the code; every structural statement about region.Compare that can be checked soundly (purity, signed constant returns) is also true of wrong comparators, and a syntactic a<->b symmetry check would fire on harmless edits. Deciding it needs input enumeration or symbolic execution, which are outside the static-analysis family.",
}

// Thorough runs the additional thorough-tier work for a property and returns
// extra coverage keys.
func Thorough(id string, prog *kit.Prog, ctx *kit.Ctx, verif string, seed int64, noMut bool) map[string]any {
	out := map[string]any{}
	if id == "C11" {
		for k, v := range bceCrossCheck(prog, ctx) {
			out[k] = v
		}
		if um, ok := out["bce_unmatched"].([]string); ok && len(um) > 0 {
			ctx.StartRule("K1-completeness", "every compiler-unproven bounds check inside a decode-surface function has an enumerated K1 obligation", 0)
			for _, u := range um {
				ctx.Unk(nil, "unenumerated-bounds-check "+u, 0, "the compiler keeps a bounds check at "+u+" for which the K1 enumeration produced no obligation: the enumeration is incomplete there")
			}
		}
	}
	if !noMut {
		exe, _ := os.Executable()
		rs := RunMutants(exe, prog.Dir, verif, id, 8, BaselineReports(ctx))
		killed, skipped, survived := 0, 0, 0
		var names []string
		for _, r := range rs {
			switch r.Status {
			case "killed":
				killed++
			case "skipped":
				skipped++
			default:
				survived++
				names = append(names, r.Name+": "+r.Status+" "+r.Detail)
			}
		}
		out["mutants_total"] = len(rs)
		out["mutants_killed"] = killed
		out["mutants_skipped"] = skipped
		out["mutants_not_killed"] = names
		out["mutants"] = rs
	}
	return out
}
