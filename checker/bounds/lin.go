// Package bounds implements engine E6: discharge of index/slice bounds
// obligations by linear facts collected from dominating guards, slicing
// arithmetic, allocation sizes, library post-conditions, module function
// summaries and the cursor idiom. No solver: an obligation G >= 0 is
// discharged iff for some combination of at most three facts F_i >= 0 the
// minimum of G - sum F_i over the box of the symbols is >= 0.
package bounds

import (
	"fmt"
	"math"
	"sort"
	"strings"
)

// Sym identifies an opaque quantity: K is an ssa.Value or a string key
// (canonicalised pure getter calls / field loads). Len marks "length of K".
type Sym struct {
	K   any
	Len bool
}

// Lin is C + sum T[s]*s.
type Lin struct {
	C int64
	T map[Sym]int64
}

func Const(c int64) Lin { return Lin{C: c} }

func Var(s Sym) Lin { return Lin{T: map[Sym]int64{s: 1}} }

func (a Lin) Add(b Lin) Lin {
	r := Lin{C: a.C + b.C, T: map[Sym]int64{}}
	for k, v := range a.T {
		r.T[k] += v
	}
	for k, v := range b.T {
		r.T[k] += v
		if r.T[k] == 0 {
			delete(r.T, k)
		}
	}
	return r
}

func (a Lin) Scale(k int64) Lin {
	r := Lin{C: a.C * k, T: map[Sym]int64{}}
	if k == 0 {
		return r
	}
	for s, v := range a.T {
		r.T[s] = v * k
	}
	return r
}

func (a Lin) Sub(b Lin) Lin { return a.Add(b.Scale(-1)) }

func (a Lin) IsConst() (int64, bool) {
	if len(a.T) == 0 {
		return a.C, true
	}
	return 0, false
}

// Box gives the range of a symbol.
type Box struct {
	Lo, Hi int64
	HasLo  bool
	HasHi  bool
}

const inf = math.MaxInt64 / 4

// Min returns the minimum of a over the box (ok=false if unbounded below).
func (a Lin) Min(box func(Sym) Box) (int64, bool) {
	m := a.C
	for s, c := range a.T {
		b := box(s)
		if c > 0 {
			if !b.HasLo {
				return 0, false
			}
			m += c * b.Lo
		} else {
			if !b.HasHi {
				return 0, false
			}
			m += c * b.Hi
		}
		if m < -inf || m > inf {
			return 0, false
		}
	}
	return m, true
}

// String renders a using name for symbols.
func (a Lin) String(name func(Sym) string) string {
	var parts []string
	for s, c := range a.T {
		n := name(s)
		switch c {
		case 1:
			parts = append(parts, "+"+n)
		case -1:
			parts = append(parts, "-"+n)
		default:
			parts = append(parts, fmt.Sprintf("%+d*%s", c, n))
		}
	}
	sort.Strings(parts)
	s := strings.Join(parts, " ")
	if a.C != 0 || s == "" {
		s += fmt.Sprintf(" %+d", a.C)
	}
	return strings.TrimSpace(strings.TrimPrefix(s, "+"))
}
