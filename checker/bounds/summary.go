package bounds

import (
	"go/token"
	"go/types"

	"golang.org/x/tools/go/ssa"

	"gohbaseverif/kit"
)

// provablyNonNilErr: v is certainly a non-nil error at block b.
func provablyNonNilErr(v ssa.Value, b *ssa.BasicBlock) bool {
	switch x := v.(type) {
	case *ssa.MakeInterface:
		return true
	case *ssa.UnOp:
		// sentinel error variables (io.EOF, ErrClientClosed, ...) are non-nil
		if g, ok := x.X.(*ssa.Global); ok && x.Op == token.MUL && kit.IsErrorType(x.Type()) {
			_ = g
			return true
		}
	case *ssa.Call:
		switch kit.CalleeName(x) {
		case "fmt.Errorf", "errors.New":
			return true
		}
	}
	for _, f := range kit.FactsAt(b) {
		if c, ok := kit.CanonCmp(f.Cond, f.Pol); ok && c.Op == token.NEQ && kit.IsNilConst(c.Y) && (c.X == v || kit.Root(c.X) == kit.Root(v)) {
			return true
		}
	}
	return false
}

// Summary computes (memoised) the post-conditions of module function fn.
func (e *Engine) Summary(fn *ssa.Function) *Summary {
	if s, ok := e.sums[fn]; ok {
		return s
	}
	if e.sumBusy[fn] {
		return nil // recursive: handled by the caller (coinductive assumption)
	}
	if fn.Blocks == nil {
		return nil
	}
	e.sumBusy[fn] = true
	defer delete(e.sumBusy, fn)

	s := &Summary{UpperLen: map[int]map[int]bool{}, LenEq: map[int]Lin{}, MinLen: map[int]int64{}, NonNeg: map[int]bool{}}
	res := fn.Signature.Results()
	n := res.Len()
	hasErr := n > 0 && kit.IsErrorType(res.At(n-1).Type())
	var sliceParams []int
	for j, pa := range fn.Params {
		switch pa.Type().Underlying().(type) {
		case *types.Slice:
			sliceParams = append(sliceParams, j)
		case *types.Basic:
			if pa.Type().Underlying().(*types.Basic).Kind() == types.String {
				sliceParams = append(sliceParams, j)
			}
		}
	}
	first := true
	lenEqOK := map[int]bool{}
	kit.Instrs(fn, func(in ssa.Instruction) {
		r, ok := in.(*ssa.Return)
		if !ok || len(r.Results) != n {
			return
		}
		if hasErr {
			ev := kit.Res(r, n-1)
			if !kit.IsNilConst(kit.Root(ev)) && provablyNonNilErr(ev, r.Block()) {
				return // error return: no post-condition
			}
		}
		idx := kit.InstrIndex(r)
		// phis are resolved by what is known at this return (the success return of an expanded helper)
		saveAt := e.at
		e.at = r.Block()
		defer func() { e.at = saveAt }()
		for i := 0; i < n; i++ {
			rv := kit.Res(r, i)
			if _, _, isInt := intInfo(res.At(i).Type()); isInt {
				nn, _ := e.Prove(e.Lin(rv), r.Block(), idx)
				if first {
					s.NonNeg[i] = nn
				} else if !nn {
					s.NonNeg[i] = false
				}
				if first {
					s.UpperLen[i] = map[int]bool{}
					for _, j := range sliceParams {
						s.UpperLen[i][j] = true
					}
				}
				for _, j := range sliceParams {
					if !s.UpperLen[i][j] {
						continue
					}
					if ok, _ := e.Prove(e.LenOf(fn.Params[j]).Sub(e.Lin(rv)), r.Block(), idx); !ok {
						delete(s.UpperLen[i], j)
					}
				}
			}
			if _, isSlice := res.At(i).Type().Underlying().(*types.Slice); isSlice {
				l := e.LenOf(rv)
				onlyParams := true
				for sym := range l.T {
					v, isV := sym.K.(ssa.Value)
					if !isV {
						onlyParams = false
						break
					}
					if _, isP := v.(*ssa.Parameter); !isP {
						onlyParams = false
					}
				}
				if first {
					lenEqOK[i] = onlyParams
					if onlyParams {
						s.LenEq[i] = l
					}
				} else if lenEqOK[i] {
					if !onlyParams || l.Sub(s.LenEq[i]).String(e.Name) != "0" && !isZero(l.Sub(s.LenEq[i])) {
						lenEqOK[i] = false
						delete(s.LenEq, i)
					}
				}
				// minimal length
				ml := int64(0)
				for k := int64(1); k <= 1; k++ {
					if ok, _ := e.Prove(l.Add(Const(-k)), r.Block(), idx); ok {
						ml = k
					}
				}
				if first {
					s.MinLen[i] = ml
				} else if ml < s.MinLen[i] {
					s.MinLen[i] = ml
				}
			}
		}
		first = false
	})
	if first {
		// no normal return
		s = &Summary{UpperLen: map[int]map[int]bool{}, LenEq: map[int]Lin{}, MinLen: map[int]int64{}, NonNeg: map[int]bool{}}
	}
	e.sums[fn] = s
	return s
}

func isZero(l Lin) bool {
	if l.C != 0 {
		return false
	}
	for _, c := range l.T {
		if c != 0 {
			return false
		}
	}
	return true
}

// callSummary returns the summary valid for every possible callee of call and
// a function mapping callee parameter indices to the argument values.
func (e *Engine) callSummary(call *ssa.Call) (*Summary, func(int) ssa.Value) {
	callees, ok := e.P.Callees(call)
	if !ok || len(callees) == 0 {
		return nil, nil
	}
	for _, c := range callees {
		if !e.P.IsSubject(c) {
			return nil, nil
		}
	}
	var acc *Summary
	for _, c := range callees {
		s := e.Summary(c)
		if s == nil {
			if e.sumBusy[c] {
				continue // coinductive: assume the property for the recursive callee
			}
			return nil, nil
		}
		if acc == nil {
			acc = &Summary{UpperLen: map[int]map[int]bool{}, LenEq: map[int]Lin{}, MinLen: map[int]int64{}, NonNeg: map[int]bool{}}
			for i, m := range s.UpperLen {
				acc.UpperLen[i] = map[int]bool{}
				for j := range m {
					acc.UpperLen[i][j] = true
				}
			}
			if len(callees) == 1 {
				for i, l := range s.LenEq {
					acc.LenEq[i] = l
				}
			}
			for i, m := range s.MinLen {
				acc.MinLen[i] = m
			}
			for i, m := range s.NonNeg {
				acc.NonNeg[i] = m
			}
			continue
		}
		for i, m := range acc.NonNeg {
			if m && !s.NonNeg[i] {
				acc.NonNeg[i] = false
			}
		}
		for i, m := range acc.UpperLen {
			for j := range m {
				if s.UpperLen[i] == nil || !s.UpperLen[i][j] {
					delete(m, j)
				}
			}
		}
		for i, m := range acc.MinLen {
			if s.MinLen[i] < m {
				acc.MinLen[i] = s.MinLen[i]
			}
		}
	}
	if acc == nil {
		return nil, nil
	}
	args := call.Call.Args
	if call.Call.IsInvoke() {
		args = append([]ssa.Value{call.Call.Value}, args...)
	}
	return acc, func(j int) ssa.Value {
		if j < len(args) {
			return args[j]
		}
		return nil
	}
}

// callLenEq: length of slice result i of call as a linear form at the call site.
func (e *Engine) callLenEq(call *ssa.Call, i int) (Lin, bool) {
	callees, ok := e.P.Callees(call)
	if !ok || len(callees) != 1 || !e.P.IsSubject(callees[0]) {
		return Lin{}, false
	}
	s := e.Summary(callees[0])
	if s == nil {
		return Lin{}, false
	}
	l, ok := s.LenEq[i]
	if !ok {
		return Lin{}, false
	}
	args := call.Call.Args
	out := Const(l.C)
	for sym, c := range l.T {
		pa := sym.K.(ssa.Value).(*ssa.Parameter)
		idx := -1
		for k, q := range callees[0].Params {
			if q == pa {
				idx = k
			}
		}
		if idx < 0 || idx >= len(args) {
			return Lin{}, false
		}
		if sym.Len {
			out = out.Add(e.LenOf(args[idx]).Scale(c))
		} else {
			out = out.Add(e.Lin(args[idx]).Scale(c))
		}
	}
	return out, true
}

// Cursors detects the cursor idiom in fn: an integer phi web whose inputs are
// 0 or cursor + n, where n is the length a decoder returned for S[cursor:] and
// the decoder guarantees n <= len(its argument) on its nil-error returns.
// Returns phi -> S.
func (e *Engine) Cursors(fn *ssa.Function) map[*ssa.Phi]ssa.Value {
	if m, ok := e.cursors[fn]; ok {
		return m
	}
	e.cursors[fn] = map[*ssa.Phi]ssa.Value{}
	if e.curBusy[fn] {
		return nil
	}
	e.curBusy[fn] = true
	defer delete(e.curBusy, fn)
	// the cursor invariant of fn is what proves fn's own post-condition, so a
	// (mutually) recursive use of fn's summary is assumed here (coinduction)
	if !e.sumBusy[fn] {
		if _, have := e.sums[fn]; !have {
			e.sumBusy[fn] = true
			defer func() {
				delete(e.sumBusy, fn)
			}()
		}
	}
	out := map[*ssa.Phi]ssa.Value{}
	done := map[*ssa.Phi]bool{}
	kit.Instrs(fn, func(in ssa.Instruction) {
		ph, ok := in.(*ssa.Phi)
		if !ok || done[ph] {
			return
		}
		if _, _, isInt := intInfo(ph.Type()); !isInt {
			return
		}
		web := map[*ssa.Phi]bool{}
		var adds []*ssa.BinOp
		good := true
		var visit func(q *ssa.Phi)
		visit = func(q *ssa.Phi) {
			if web[q] {
				return
			}
			web[q] = true
			for _, ed := range q.Edges {
				switch x := ed.(type) {
				case *ssa.Const:
					if k, ok := kit.ConstInt(x); !ok || k != 0 {
						good = false
					}
				case *ssa.Phi:
					visit(x)
				case *ssa.BinOp:
					if x.Op != token.ADD {
						good = false
						return
					}
					if xp, ok := x.X.(*ssa.Phi); ok {
						visit(xp)
						adds = append(adds, x)
					} else {
						good = false
					}
				default:
					good = false
				}
			}
		}
		visit(ph)
		for q := range web {
			done[q] = true
		}
		if !good || len(adds) == 0 {
			return
		}
		var slice ssa.Value
		for _, add := range adds {
			if !web[add.X.(*ssa.Phi)] {
				good = false
				break
			}
			ex, ok := add.Y.(*ssa.Extract)
			if !ok {
				good = false
				break
			}
			call, ok := ex.Tuple.(*ssa.Call)
			if !ok {
				good = false
				break
			}
			sum, argOf := e.callSummary(call)
			if sum == nil {
				good = false
				break
			}
			found := false
			for pj := range sum.UpperLen[ex.Index] {
				arg := argOf(pj)
				sl, ok := arg.(*ssa.Slice)
				if !ok || sl.High != nil || sl.Low == nil {
					continue
				}
				low := kit.Strip(sl.Low)
				if cv, ok := low.(*ssa.Convert); ok {
					low = cv.X
				}
				lp, ok := low.(*ssa.Phi)
				if !ok || !web[lp] {
					continue
				}
				if slice == nil || slice == sl.X {
					slice = sl.X
					found = true
				}
			}
			if !found || !errNilEdgeDominates(call, add.Block(), kit.InstrIndex(add)) {
				good = false
				break
			}
		}
		if good && slice != nil {
			for q := range web {
				out[q] = slice
			}
		}
	})
	e.cursors[fn] = out
	// facts may have been cached without the cursors
	delete(e.gfacts, fn)
	return out
}
