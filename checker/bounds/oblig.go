package bounds

import (
	"fmt"
	"go/token"
	"go/types"
	"strings"

	"golang.org/x/tools/go/ssa"

	"gohbaseverif/kit"
)

// Obl is one bounds obligation.
type Obl struct {
	Instr ssa.Instruction
	Kind  string // slice | index | fixed-width | make | nonneg-arg
	Text  string
	OK    bool
	Why   string
}

func (e *Engine) need(g Lin, in ssa.Instruction, what string) (bool, string) {
	if c, ok := e.traceValidAt(e.pendingTrace, in.Block(), kit.InstrIndex(in)); !ok {
		return false, what + " relies on a result of " + kit.ShortName(kit.CalleeName(c)) + " at " + e.P.Pos(c.Pos()) + " whose error is not known to be nil here"
	}
	ok, why := e.Prove(g, in.Block(), kit.InstrIndex(in))
	if ok {
		return true, what + ": " + why
	}
	return false, what + " not established (" + g.String(e.Name) + " >= 0); " + why
}

func isConstExpr(v ssa.Value) bool {
	if v == nil {
		return true
	}
	_, ok := kit.ConstInt(v)
	return ok
}

// Obligations enumerates and decides the bounds obligations of fn.
func (e *Engine) Obligations(fn *ssa.Function) []Obl {
	var out []Obl
	add := func(in ssa.Instruction, kind, text string, checks ...func() (bool, string)) {
		e.pendingTrace = e.Trace()
		o := Obl{Instr: in, Kind: kind, Text: text, OK: true}
		var whys []string
		for _, c := range checks {
			ok, why := c()
			whys = append(whys, why)
			if !ok {
				o.OK = false
				o.Why = why
				break
			}
		}
		if o.OK {
			o.Why = strings.Join(whys, "; ")
		}
		out = append(out, o)
	}
	kit.Instrs(fn, func(in ssa.Instruction) {
		e.StartTrace()
		e.at = in.Block()
		defer func() { e.pendingTrace = nil; e.at = nil }()
		switch x := in.(type) {
		case *ssa.Slice:
			if x.Low == nil && x.High == nil && x.Max == nil {
				return
			}
			// s[len(s):cap(s)] (scratch space of an append-style codec) is always legal
			if lc, ok := kit.Strip(x.Low).(*ssa.Call); ok && x.High != nil {
				if hc, ok := kit.Strip(x.High).(*ssa.Call); ok && kit.CalleeName(lc) == "builtin.len" && kit.CalleeName(hc) == "builtin.cap" &&
					lc.Call.Args[0] == x.X && hc.Call.Args[0] == x.X {
					return
				}
			}
			base := e.LenOf(x.X)
			if bl, ok := base.IsConst(); ok && isConstExpr(x.Low) && isConstExpr(x.High) && isConstExpr(x.Max) {
				// constant slicing of an array: checked by the compiler
				_ = bl
				if _, isArr := x.X.Type().Underlying().(*types.Pointer); isArr {
					return
				}
			}
			lo := Const(0)
			if x.Low != nil {
				lo = e.Lin(x.Low)
			}
			hi := base
			if x.High != nil {
				hi = e.Lin(x.High)
			}
			var checks []func() (bool, string)
			if x.Low != nil {
				checks = append(checks, func() (bool, string) { return e.need(lo, x, "low >= 0") })
			}
			if x.High != nil {
				checks = append(checks, func() (bool, string) { return e.need(base.Sub(hi), x, "high <= len") })
				checks = append(checks, func() (bool, string) { return e.need(hi.Sub(lo), x, "low <= high") })
			} else {
				checks = append(checks, func() (bool, string) { return e.need(base.Sub(lo), x, "low <= len") })
			}
			if x.Max != nil {
				mx := e.Lin(x.Max)
				checks = append(checks, func() (bool, string) { return e.need(base.Sub(mx), x, "max <= len") })
				checks = append(checks, func() (bool, string) { return e.need(mx.Sub(hi), x, "high <= max") })
			}
			add(x, "slice", kit.Path(x.X)+"["+optPath(x.Low)+":"+optPath(x.High)+"]", checks...)
		case *ssa.IndexAddr:
			if _, isMap := x.X.Type().Underlying().(*types.Map); isMap {
				return
			}
			base := e.LenOf(x.X)
			idx := e.Lin(x.Index)
			if bl, ok := base.IsConst(); ok {
				if k, ok := idx.IsConst(); ok && k >= 0 && k < bl {
					return // constant index into an array
				}
			}
			add(x, "index", kit.Path(x.X)+"["+optPath(x.Index)+"]",
				func() (bool, string) { return e.need(idx, x, "index >= 0") },
				func() (bool, string) { return e.need(base.Sub(idx).Add(Const(-1)), x, "index < len") })
		case *ssa.Index:
			base := e.LenOf(x.X)
			idx := e.Lin(x.Index)
			if bl, ok := base.IsConst(); ok {
				if k, ok := idx.IsConst(); ok && k >= 0 && k < bl {
					return
				}
			}
			add(x, "index", kit.Path(x.X)+"["+optPath(x.Index)+"]",
				func() (bool, string) { return e.need(idx, x, "index >= 0") },
				func() (bool, string) { return e.need(base.Sub(idx).Add(Const(-1)), x, "index < len") })
		case *ssa.Lookup:
			if b, ok := x.X.Type().Underlying().(*types.Basic); ok && b.Info()&types.IsString != 0 {
				base := e.LenOf(x.X)
				idx := e.Lin(x.Index)
				add(x, "index", kit.Path(x.X)+"["+optPath(x.Index)+"]",
					func() (bool, string) { return e.need(idx, x, "index >= 0") },
					func() (bool, string) { return e.need(base.Sub(idx).Add(Const(-1)), x, "index < len") })
			}
		case *ssa.MakeSlice:
			if !isConstExpr(x.Len) {
				l := e.Lin(x.Len)
				add(x, "make", "make(len="+optPath(x.Len)+")", func() (bool, string) { return e.need(l, x, "len >= 0") })
			}
		case *ssa.Call:
			name := kit.CalleeName(x)
			if w, ok := fixedWidth(name); ok {
				arg := x.Call.Args[len(x.Call.Args)-1]
				if strings.Contains(name, ".Put") || strings.Contains(name, ".Append") {
					arg = x.Call.Args[1]
				}
				if strings.Contains(name, ".Append") {
					return
				}
				l := e.LenOf(arg)
				add(x, "fixed-width", kit.ShortName(name)+"("+kit.Path(arg)+")",
					func() (bool, string) {
						return e.need(l.Add(Const(-int64(w))), x, fmt.Sprintf("len >= %d", w))
					})
			}
			if name == "slices.Grow" || strings.HasPrefix(name, "slices.Grow[") {
				n := e.Lin(x.Call.Args[1])
				add(x, "nonneg-arg", "slices.Grow(_, "+optPath(x.Call.Args[1])+")", func() (bool, string) { return e.need(n, x, "n >= 0") })
			}
			// parameter contracts: arguments bound to parameters assumed non-negative
			if callee := kit.StaticCallee(x); callee != nil {
				for k, pa := range callee.Params {
					if e.NonNeg[pa] && k < len(x.Call.Args) {
						a := e.Lin(x.Call.Args[k])
						kk := k
						add(x, "nonneg-arg", fmt.Sprintf("%s(arg %d = %s)", kit.FuncName(callee), kk, optPath(x.Call.Args[kk])),
							func() (bool, string) {
								return e.need(a, x, "argument for non-negative parameter "+pa.Name()+" >= 0")
							})
					}
				}
			}
		}
	})
	return out
}

func optPath(v ssa.Value) string {
	if v == nil {
		return ""
	}
	if k, ok := kit.ConstInt(v); ok {
		return fmt.Sprint(k)
	}
	return kit.Path(v)
}

// fixedWidth recognises encoding/binary fixed-width accessors.
func fixedWidth(name string) (int, bool) {
	if !strings.HasPrefix(name, "(encoding/binary.bigEndian).") && !strings.HasPrefix(name, "(encoding/binary.littleEndian).") {
		return 0, false
	}
	switch {
	case strings.HasSuffix(name, "Uint16"):
		return 2, true
	case strings.HasSuffix(name, "Uint32"):
		return 4, true
	case strings.HasSuffix(name, "Uint64"):
		return 8, true
	}
	return 0, false
}

// MarkNonNegParams assumes every signed integer parameter of the unexported
// function fn to be non-negative; the assumption is an obligation at every
// static call site (kind nonneg-arg).
func (e *Engine) MarkNonNegParams(fn *ssa.Function) {
	for _, pa := range fn.Params {
		if _, uns, ok := intInfo(pa.Type()); !ok || uns {
			continue
		}
		e.NonNeg[pa] = true
	}
}

var _ = token.ADD
