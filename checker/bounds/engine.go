package bounds

import (
	"fmt"
	"go/constant"
	"go/token"
	"go/types"
	"strings"

	"golang.org/x/tools/go/ssa"

	"gohbaseverif/kit"
)

const maxLen = int64(1)<<32 - 1 // assumption: no buffer/slice is longer than 4 GiB-1 elements

// Fact is a linear inequality E >= 0 that holds at a program point.
type Fact struct {
	E   Lin
	Why string
}

// Summary of a module function: post-conditions on its normal (nil error) returns.
type Summary struct {
	// UpperLen[i] = set of parameter indices j with: result i <= len(param j)
	UpperLen map[int]map[int]bool
	// LenEq[i] = length of slice result i as a linear form over parameter symbols
	LenEq map[int]Lin
	// NonEmpty[i]: slice result i has length >= 1
	MinLen map[int]int64
	// NonNeg[i]: integer result i is >= 0 on every normal return
	NonNeg map[int]bool
}

// Engine holds memoised linearisations, summaries and cursor invariants.
type Engine struct {
	P       *kit.Prog
	lin     map[ssa.Value]Lin
	linBusy map[ssa.Value]bool
	sums    map[*ssa.Function]*Summary
	sumBusy map[*ssa.Function]bool
	cursors map[*ssa.Function]map[*ssa.Phi]ssa.Value
	// at: the block of the construct being examined (facts there prune phi inputs, see kit.RootAt)
	at      *ssa.BasicBlock
	curBusy map[*ssa.Function]bool
	keyType map[string]types.Type
	keyName map[string]string
	NonNeg  map[*ssa.Parameter]bool // parameters assumed >= 0 (obligation at call sites)
	// CopyAsLenSrc treats copy(dst, src) as returning len(src) (size-agreement rules).
	CopyAsLenSrc bool
	storesTo     map[*ssa.Function]map[*types.Var][]*ssa.Store
	gfacts       map[*ssa.Function][]gfact
	loadKeys     map[*ssa.UnOp]any
	cur          []*ssa.Call
	pendingTrace []*ssa.Call
	trace        map[ssa.Value][]*ssa.Call // summary expansions used while linearising a value
}

type gfact struct {
	f     Fact
	valid func(b *ssa.BasicBlock, idx int) bool
}

// New creates an engine.
func New(p *kit.Prog) *Engine {
	return &Engine{P: p, lin: map[ssa.Value]Lin{}, linBusy: map[ssa.Value]bool{}, sums: map[*ssa.Function]*Summary{},
		sumBusy: map[*ssa.Function]bool{}, cursors: map[*ssa.Function]map[*ssa.Phi]ssa.Value{}, curBusy: map[*ssa.Function]bool{},
		keyType: map[string]types.Type{}, keyName: map[string]string{}, NonNeg: map[*ssa.Parameter]bool{},
		storesTo: map[*ssa.Function]map[*types.Var][]*ssa.Store{}, gfacts: map[*ssa.Function][]gfact{},
		loadKeys: map[*ssa.UnOp]any{}, trace: map[ssa.Value][]*ssa.Call{}}
}

// ---------------------------------------------------------------------------
// symbols

func isPbGetter(c *ssa.Call) bool {
	fn := kit.StaticCallee(c)
	if fn == nil || fn.Pkg == nil || fn.Pkg.Pkg.Path() != kit.Module+"/pb" {
		return false
	}
	return strings.HasPrefix(fn.Name(), "Get") && fn.Signature.Recv() != nil && len(c.Call.Args) == 1
}

func (e *Engine) fieldStores(fn *ssa.Function) map[*types.Var][]*ssa.Store {
	if m, ok := e.storesTo[fn]; ok {
		return m
	}
	m := map[*types.Var][]*ssa.Store{}
	for _, f := range kit.WithAnon(fn) {
		kit.Instrs(f, func(in ssa.Instruction) {
			if st, ok := in.(*ssa.Store); ok {
				if fa, ok := st.Addr.(*ssa.FieldAddr); ok {
					fv := kit.FieldVar(fa.X.Type(), fa.Field)
					m[fv] = append(m[fv], st)
				}
			}
		})
	}
	e.storesTo[fn] = m
	return m
}

// resolve forwards a load of a struct field to the value stored by the single
// dominating store to that field of the same object in the same function.
func (e *Engine) resolve(v ssa.Value) ssa.Value {
	for i := 0; i < 8; i++ {
		v = kit.Strip(v)
		if ph, ok := v.(*ssa.Phi); ok && e.at != nil && ph.Parent() == e.at.Parent() {
			if r := kit.RootAt(ph, e.at); r != ssa.Value(ph) {
				v = r
				continue
			}
		}
		u, ok := v.(*ssa.UnOp)
		if !ok || u.Op != token.MUL {
			return v
		}
		if fa, ok := u.X.(*ssa.FieldAddr); ok {
			fv := kit.FieldVar(fa.X.Type(), fa.Field)
			sts := e.fieldStores(outer(u.Parent()))[fv]
			if len(sts) == 1 && sts[0].Parent() == u.Parent() {
				sfa := sts[0].Addr.(*ssa.FieldAddr)
				if e.key(sfa.X) == e.key(fa.X) && kit.Dominates(sts[0], u) {
					v = sts[0].Val
					continue
				}
			}
			return v
		}
		// single-store local
		r := kit.Root(v)
		if r != v {
			v = r
			continue
		}
		return v
	}
	return v
}

func outer(fn *ssa.Function) *ssa.Function {
	for fn.Parent() != nil {
		fn = fn.Parent()
	}
	return fn
}

// key canonicalises a value: pure pb getters on the same receiver, immutable
// RegionInfo attribute getters on the same region, and loads of the same field
// of the same object with no store to that field possibly executing between
// them denote the same quantity.
func (e *Engine) key(v ssa.Value) any {
	v = e.resolve(v)
	switch x := v.(type) {
	case *ssa.Call:
		if isPbGetter(x) {
			k := fmt.Sprintf("get:%s@%v", kit.StaticCallee(x).Name(), e.keyStr(x.Call.Args[0]))
			e.keyType[k] = x.Type()
			e.keyName[k] = kit.Path(x.Call.Args[0]) + "." + kit.StaticCallee(x).Name() + "()"
			return k
		}
		if n := kit.CalleeName(x); PureLibraryFuncs[n] {
			k := "pure:" + n
			for _, a := range x.Call.Args {
				if cv, ok := a.(*ssa.Convert); ok {
					a = cv.X
				}
				k += "|" + e.keyStr(a)
			}
			e.keyType[k] = x.Type()
			e.keyName[k] = kit.ShortName(n) + "(" + kit.Path(x.Call.Args[0]) + ")"
			return k
		}
		if x.Call.IsInvoke() && PureRegionGetters[x.Call.Method.Name()] &&
			x.Call.Method.FullName() == "("+kit.Module+"/hrpc.RegionInfo)."+x.Call.Method.Name() {
			k := fmt.Sprintf("rget:%s@%v", x.Call.Method.Name(), e.keyStr(x.Call.Value))
			e.keyType[k] = x.Type()
			e.keyName[k] = kit.Path(x.Call.Value) + "." + x.Call.Method.Name() + "()"
			return k
		}
	case *ssa.UnOp:
		if x.Op == token.MUL {
			if fa, ok := x.X.(*ssa.FieldAddr); ok {
				return e.loadKey(x, fa)
			}
			// a local that is only ever filled by one library call that does not keep the pointer
			// (binary.Read(r, order, &size)): every load after the call sees the same value
			if a, ok := x.X.(*ssa.Alloc); ok {
				if call := filledOnceBy(a); call != nil && kit.Dominates(call, x) {
					key := fmt.Sprintf("filled:%p", a)
					e.keyType[key] = x.Type()
					e.keyName[key] = a.Comment
					return key
				}
			}
			// element load with a constant index from a slice that the function never writes through
			if ia, ok := x.X.(*ssa.IndexAddr); ok {
				if k, isC := kit.ConstInt(ia.Index); isC && !e.storesThroughIndex(outer(x.Parent()), ia.X.Type()) {
					key := fmt.Sprintf("elem:%d@%v", k, e.keyStr(ia.X))
					e.keyType[key] = x.Type()
					e.keyName[key] = fmt.Sprintf("%s[%d]", kit.Path(ia.X), k)
					return key
				}
			}
		}
	case *ssa.Field:
		fv := kit.FieldVar(x.X.Type(), x.Field)
		k := fmt.Sprintf("fldv:%s@%v", fv.Name(), e.keyStr(x.X))
		e.keyType[k] = x.Type()
		e.keyName[k] = kit.Path(x.X) + "." + fv.Name()
		return k
	}
	return v
}

// storesThroughIndex: fn (or a nested literal) stores to an element of a
// slice/array of type t.
func (e *Engine) storesThroughIndex(fn *ssa.Function, t types.Type) bool {
	found := false
	for _, f := range kit.WithAnon(fn) {
		kit.Instrs(f, func(in ssa.Instruction) {
			if st, ok := in.(*ssa.Store); ok {
				if ia, ok := st.Addr.(*ssa.IndexAddr); ok && types.Identical(ia.X.Type(), t) {
					found = true
				}
			}
		})
	}
	return found
}

// PureLibraryFuncs are side-effect-free library functions whose results for
// the same arguments denote the same quantity.
var PureLibraryFuncs = map[string]bool{
	"google.golang.org/protobuf/proto.Size":                    true,
	"google.golang.org/protobuf/encoding/protowire.SizeVarint": true,
}

// PureRegionGetters lists the hrpc.RegionInfo methods that return immutable
// attributes (precondition checked by the C11 rule set: the backing fields of
// region.info are never stored to outside its constructor).
var PureRegionGetters = map[string]bool{"StartKey": true, "StopKey": true, "Name": true, "Namespace": true, "Table": true, "ID": true}

// loadKey: canonical representative of a field load = the first load of the
// same field of the same object that dominates it with no store to that field
// (of any object) possibly executing between the two.
func (e *Engine) loadKey(u *ssa.UnOp, fa *ssa.FieldAddr) any {
	if k, ok := e.loadKeys[u]; ok {
		return k
	}
	e.loadKeys[u] = u // provisional (recursion through keyStr of the base)
	fn := u.Parent()
	fv := kit.FieldVar(fa.X.Type(), fa.Field)
	stores := e.fieldStores(outer(fn))[fv]
	baseKey := e.keyStr(fa.X)
	name := kit.Path(fa.X) + "." + fv.Name()
	if len(stores) == 0 {
		k := fmt.Sprintf("fld:%s@%v", fv.Name(), baseKey)
		e.keyType[k] = u.Type()
		e.keyName[k] = name
		e.loadKeys[u] = k
		return k
	}
	var rep any = u
	done := false
	kit.Instrs(fn, func(in ssa.Instruction) {
		if done {
			return
		}
		v, ok := in.(*ssa.UnOp)
		if !ok || v.Op != token.MUL {
			return
		}
		if v == u {
			return
		}
		vfa, ok := v.X.(*ssa.FieldAddr)
		if !ok || kit.FieldVar(vfa.X.Type(), vfa.Field) != fv || !kit.Dominates(v, u) {
			return
		}
		if e.keyStr(vfa.X) != baseKey {
			return
		}
		for _, st := range stores {
			if st.Parent() != fn {
				return // stored to from a nested literal: give up
			}
			if kit.Reaches(v, st) && kit.Reaches(st, u) {
				return
			}
		}
		rep = e.loadKey(v, vfa)
		done = true
	})
	e.loadKeys[u] = rep
	return rep
}

func (e *Engine) keyStr(v ssa.Value) string {
	k := e.key(v)
	if s, ok := k.(string); ok {
		return s
	}
	return fmt.Sprintf("%p", k)
}

// ErrNilAt reports whether the error result of call is known to be nil at (b, idx).
func (e *Engine) ErrNilAt(call *ssa.Call, b *ssa.BasicBlock, idx int) bool {
	return errNilEdgeDominates(call, b, idx)
}

// PureKey returns the canonical symbol key of the pure library call name(arg).
func (e *Engine) PureKey(name string, arg ssa.Value) any {
	if cv, ok := arg.(*ssa.Convert); ok {
		arg = cv.X
	}
	k := "pure:" + name + "|" + e.keyStr(arg)
	if _, ok := e.keyName[k]; !ok {
		e.keyName[k] = kit.ShortName(name) + "(" + kit.Path(arg) + ")"
	}
	return k
}

// KeyOf exposes the canonical identity of a value (pure getters on the same
// receiver and loads of never-reassigned fields of one object coincide).
func (e *Engine) KeyOf(v ssa.Value) any { return e.key(v) }

// Name renders a symbol.
func (e *Engine) Name(s Sym) string {
	var n string
	switch k := s.K.(type) {
	case string:
		n = e.keyName[k]
	case ssa.Value:
		n = kit.Path(k)
		if _, isCall := k.(*ssa.Call); isCall {
			n = k.Name() + ":" + n
		}
	}
	if s.Len {
		return "len(" + n + ")"
	}
	return n
}

func (e *Engine) typeOf(s Sym) types.Type {
	switch k := s.K.(type) {
	case string:
		return e.keyType[k]
	case ssa.Value:
		return k.Type()
	}
	return nil
}

// Box returns the range of a symbol from its type and from structural facts.
func (e *Engine) Box(s Sym) Box {
	if s.Len {
		return Box{Lo: 0, Hi: maxLen, HasLo: true, HasHi: true}
	}
	t := e.typeOf(s)
	if t != nil {
		if b, ok := t.Underlying().(*types.Basic); ok {
			switch b.Kind() {
			case types.Uint8:
				return Box{0, 255, true, true}
			case types.Uint16:
				return Box{0, 65535, true, true}
			case types.Uint32:
				return Box{0, maxLen, true, true}
			case types.Uint64, types.Uint, types.Uintptr:
				return Box{Lo: 0, HasLo: true}
			case types.Int8:
				return Box{-128, 127, true, true}
			case types.Int16:
				return Box{-32768, 32767, true, true}
			case types.Int32:
				return Box{-1 << 31, 1<<31 - 1, true, true}
			}
		}
	}
	if v, ok := s.K.(ssa.Value); ok {
		switch x := v.(type) {
		case *ssa.Phi:
			if lo, ok := counterLo(x); ok {
				return Box{Lo: lo, HasLo: true}
			}
		case *ssa.Parameter:
			if e.NonNeg[x] {
				return Box{Lo: 0, HasLo: true}
			}
		}
	}
	return Box{}
}

// counterLo: phi whose inputs are constants or (phi-in-web + positive const).
func counterLo(p *ssa.Phi) (int64, bool) {
	web := map[*ssa.Phi]bool{}
	var lo int64
	have := false
	ok := true
	var visit func(q *ssa.Phi)
	visit = func(q *ssa.Phi) {
		if web[q] {
			return
		}
		web[q] = true
		for _, ed := range q.Edges {
			switch x := ed.(type) {
			case *ssa.Const:
				if x.Value == nil || x.Value.Kind() != constant.Int {
					ok = false
					return
				}
				c, _ := constant.Int64Val(x.Value)
				if !have || c < lo {
					lo, have = c, true
				}
			case *ssa.Phi:
				visit(x)
			case *ssa.BinOp:
				k, isC := kit.ConstInt(x.Y)
				ph, isPhi := x.X.(*ssa.Phi)
				if x.Op != token.ADD || !isC || k <= 0 || !isPhi {
					ok = false
					return
				}
				visit(ph)
			default:
				ok = false
			}
		}
	}
	visit(p)
	return lo, ok && have
}

// ---------------------------------------------------------------------------
// linearisation

func intInfo(t types.Type) (bits int, unsigned, ok bool) {
	b, isB := t.Underlying().(*types.Basic)
	if !isB {
		return 0, false, false
	}
	switch b.Kind() {
	case types.Int8:
		return 8, false, true
	case types.Int16:
		return 16, false, true
	case types.Int32:
		return 32, false, true
	case types.Int64, types.Int:
		return 64, false, true
	case types.Uint8:
		return 8, true, true
	case types.Uint16:
		return 16, true, true
	case types.Uint32:
		return 32, true, true
	case types.Uint64, types.Uint, types.Uintptr:
		return 64, true, true
	case types.UntypedInt:
		return 64, false, true
	}
	return 0, false, false
}

func (e *Engine) opaque(v ssa.Value) Lin { return Var(Sym{K: e.key(v)}) }

// Lin linearises an integer-valued SSA value. Expansions through callee
// summaries (valid only where the callee's error was nil) are recorded in the
// current trace (see Trace).
func (e *Engine) Lin(v ssa.Value) Lin {
	v = kit.Strip(v)
	if l, ok := e.lin[v]; ok {
		e.cur = append(e.cur, e.trace[v]...)
		return l
	}
	if e.linBusy[v] {
		return e.opaque(v)
	}
	e.linBusy[v] = true
	save := e.cur
	e.cur = nil
	l := e.lin0(v)
	tr := e.cur
	e.cur = append(save, tr...)
	delete(e.linBusy, v)
	e.lin[v] = l
	e.trace[v] = tr
	return l
}

// StartTrace resets the record of summary expansions; Trace returns the calls
// whose nil-error post-conditions were used since.
func (e *Engine) StartTrace() { e.cur = nil }

// Trace returns the calls whose summaries were expanded since StartTrace.
func (e *Engine) Trace() []*ssa.Call { return e.cur }

// traceValidAt: every summary expansion used is valid at the point (b, idx).
func (e *Engine) traceValidAt(tr []*ssa.Call, b *ssa.BasicBlock, idx int) (*ssa.Call, bool) {
	for _, c := range tr {
		if !errNilEdgeDominates(c, b, idx) {
			return c, false
		}
	}
	return nil, true
}

func (e *Engine) lin0(v ssa.Value) Lin {
	switch x := v.(type) {
	case *ssa.Const:
		if x.Value != nil && x.Value.Kind() == constant.Int {
			if c, ok := constant.Int64Val(x.Value); ok {
				return Const(c)
			}
		}
		return e.opaque(v)
	case *ssa.Convert:
		sb, su, ok1 := intInfo(x.X.Type())
		db, du, ok2 := intInfo(x.Type())
		if ok1 && ok2 {
			switch {
			case su && db > sb, su && du && db >= sb, !su && !du && db >= sb:
				return e.Lin(x.X)
			}
		}
		return e.opaque(v)
	case *ssa.BinOp:
		bits, uns, ok := intInfo(x.Type())
		if !ok {
			return e.opaque(v)
		}
		switch x.Op {
		case token.ADD, token.SUB:
			a, b := e.Lin(x.X), e.Lin(x.Y)
			var r Lin
			if x.Op == token.ADD {
				r = a.Add(b)
			} else {
				r = a.Sub(b)
			}
			if !uns {
				return r
			}
			// unsigned: linear only when provably no wrap at the definition
			if x.Op == token.SUB {
				if ok, _ := e.Prove(r, x.Block(), kit.InstrIndex(x)); !ok {
					return e.opaque(v)
				}
				return r
			}
			if bits < 64 {
				max := int64(1)<<uint(bits) - 1
				if ok, _ := e.Prove(Const(max).Sub(r), x.Block(), kit.InstrIndex(x)); !ok {
					return e.opaque(v)
				}
			}
			return r
		case token.MUL:
			if k, ok := kit.ConstInt(x.Y); ok && !uns {
				return e.Lin(x.X).Scale(k)
			}
			if k, ok := kit.ConstInt(x.X); ok && !uns {
				return e.Lin(x.Y).Scale(k)
			}
		}
		return e.opaque(v)
	case *ssa.Call:
		if b, ok := x.Call.Value.(*ssa.Builtin); ok && b.Name() == "len" {
			return e.LenOf(x.Call.Args[0])
		}
		if b, ok := x.Call.Value.(*ssa.Builtin); ok && b.Name() == "copy" && e.CopyAsLenSrc {
			return e.LenOf(x.Call.Args[1])
		}
		// library identity: protowire.SizeBytes(n) = SizeVarint(uint64(n)) + n
		if kit.CalleeName(x) == "google.golang.org/protobuf/encoding/protowire.SizeBytes" && len(x.Call.Args) == 1 {
			k := e.PureKey("google.golang.org/protobuf/encoding/protowire.SizeVarint", x.Call.Args[0])
			if ks, ok := k.(string); ok {
				if _, seen := e.keyType[ks]; !seen {
					e.keyType[ks] = x.Type()
				}
			}
			return Var(Sym{K: k}).Add(e.Lin(x.Call.Args[0]))
		}
		return e.opaque(v)
	case *ssa.UnOp:
		if x.Op == token.MUL {
			r := e.resolve(v)
			if r != v {
				return e.Lin(r)
			}
		}
		return e.opaque(v)
	}
	return e.opaque(v)
}

// LenOf returns the length of a slice/string/array-pointer valued v.
func (e *Engine) LenOf(v ssa.Value) Lin {
	v = e.resolve(v)
	if pt, ok := v.Type().Underlying().(*types.Pointer); ok {
		if at, ok := pt.Elem().Underlying().(*types.Array); ok {
			return Const(at.Len())
		}
	}
	if at, ok := v.Type().Underlying().(*types.Array); ok {
		return Const(at.Len())
	}
	switch x := v.(type) {
	case *ssa.Slice:
		base := e.LenOf(x.X)
		lo := Const(0)
		if x.Low != nil {
			lo = e.Lin(x.Low)
		}
		hi := base
		if x.High != nil {
			hi = e.Lin(x.High)
		}
		return hi.Sub(lo)
	case *ssa.MakeSlice:
		return e.Lin(x.Len)
	case *ssa.Const:
		if x.Value == nil {
			return Const(0)
		}
		if x.Value.Kind() == constant.String {
			return Const(int64(len(constant.StringVal(x.Value))))
		}
	case *ssa.Convert:
		// string <-> []byte
		return e.LenOf(x.X)
	case *ssa.Call:
		// append(s, t...) has length len(s)+len(t)
		if b, ok := x.Call.Value.(*ssa.Builtin); ok && b.Name() == "append" && len(x.Call.Args) == 2 {
			return e.LenOf(x.Call.Args[0]).Add(e.LenOf(x.Call.Args[1]))
		}
		if l, ok := e.callLenEq(x, 0); ok && x.Call.Signature().Results().Len() == 1 {
			e.cur = append(e.cur, x)
			return l
		}
	case *ssa.Extract:
		if call, ok := x.Tuple.(*ssa.Call); ok {
			if l, ok := e.callLenEq(call, x.Index); ok {
				e.cur = append(e.cur, call)
				return l
			}
		}
	}
	return Var(Sym{K: e.key(v), Len: true})
}

// ---------------------------------------------------------------------------
// facts

func (e *Engine) cmpFacts(c kit.Cmp, why string) []Fact {
	if c.Bytes {
		return nil
	}
	if _, _, ok := intInfo(c.X.Type()); !ok {
		return nil
	}
	x, y := e.Lin(c.X), e.Lin(c.Y)
	switch c.Op {
	case token.LSS:
		return []Fact{{y.Sub(x).Add(Const(-1)), why}}
	case token.LEQ:
		return []Fact{{y.Sub(x), why}}
	case token.GTR:
		return []Fact{{x.Sub(y).Add(Const(-1)), why}}
	case token.GEQ:
		return []Fact{{x.Sub(y), why}}
	case token.EQL:
		return []Fact{{x.Sub(y), why}, {y.Sub(x), why}}
	case token.NEQ:
		// x != c where c is the lower bound of x  =>  x >= c+1
		d := x.Sub(y)
		if m, ok := d.Min(e.Box); ok && m == 0 {
			return []Fact{{d.Add(Const(-1)), why}}
		}
		d = y.Sub(x)
		if m, ok := d.Min(e.Box); ok && m == 0 {
			return []Fact{{d.Add(Const(-1)), why}}
		}
	}
	return nil
}

// FactsAt returns the facts valid immediately before instruction idx of block b.
func (e *Engine) FactsAt(b *ssa.BasicBlock, idx int) []Fact {
	var out []Fact
	for _, f := range kit.FactsAt(b) {
		out = append(out, e.branchFact(f)...)
	}
	for _, g := range e.globalFacts(b.Parent()) {
		if g.valid(b, idx) {
			out = append(out, g.f)
		}
	}
	return out
}

// branchFact converts a decided branch condition into linear facts; facts that
// rely on a callee post-condition are kept only if the callee's error was
// known to be nil where the condition was evaluated.
func (e *Engine) branchFact(f kit.Fact) []Fact {
	// library post-conditions of predicates: a true bytes.HasPrefix / HasSuffix / strings.HasPrefix
	// means the subject is at least as long as the affix
	if call, isCall := f.Cond.(*ssa.Call); isCall && f.Pol {
		switch kit.CalleeName(call) {
		case "bytes.HasPrefix", "bytes.HasSuffix", "strings.HasPrefix", "strings.HasSuffix":
			return []Fact{{e.LenOf(call.Call.Args[0]).Sub(e.LenOf(call.Call.Args[1])), "library post-condition: " + kit.CalleeName(call) + " is true only if the subject is at least as long as the affix (" + e.P.Pos(f.If.Pos()) + ")"}}
		}
	}
	c, ok := kit.CanonCmp(f.Cond, f.Pol)
	if !ok {
		return nil
	}
	save := e.cur
	e.cur = nil
	fs := e.cmpFacts(c, "guard "+e.P.Pos(f.If.Pos()))
	tr := e.cur
	e.cur = save
	if _, ok := e.traceValidAt(tr, f.If.Block(), kit.InstrIndex(f.If)); !ok {
		return nil
	}
	return fs
}

// edgeFacts returns the facts that hold when control flows from→to.
func (e *Engine) edgeFacts(from, to *ssa.BasicBlock) []Fact {
	out := e.FactsAt(from, len(from.Instrs))
	if len(from.Instrs) > 0 {
		if iff, ok := from.Instrs[len(from.Instrs)-1].(*ssa.If); ok && from.Succs[0] != from.Succs[1] {
			if from.Succs[0] == to {
				out = append(out, e.branchFact(kit.Fact{Cond: iff.Cond, Pol: true, If: iff})...)
			} else if from.Succs[1] == to {
				out = append(out, e.branchFact(kit.Fact{Cond: iff.Cond, Pol: false, If: iff})...)
			}
		}
	}
	return out
}

func instrDominatesPoint(in ssa.Instruction, b *ssa.BasicBlock, idx int) bool {
	if in.Block() == b {
		return kit.InstrIndex(in) < idx
	}
	return in.Block().Dominates(b)
}

// errNilEdgeDominates: the point (b, idx) is reached only when the error
// result of call was nil (or the call has no error result).
func errNilEdgeDominates(call *ssa.Call, b *ssa.BasicBlock, idx int) bool {
	sig := call.Call.Signature()
	n := sig.Results().Len()
	if n == 0 || !kit.IsErrorType(sig.Results().At(n-1).Type()) {
		return instrDominatesPoint(call, b, idx)
	}
	var errV ssa.Value
	if n == 1 {
		errV = call
	} else {
		errV = kit.ExtractOf(call, n-1)
	}
	if errV == nil {
		return false
	}
	for _, f := range kit.FactsAt(b) {
		c, ok := kit.CanonCmp(f.Cond, f.Pol)
		if !ok || c.Op != token.EQL || !kit.IsNilConst(c.Y) {
			continue
		}
		if kit.Root(c.X) == errV || c.X == errV {
			return true
		}
		// stored into a variable and re-loaded: x.X is load of alloc into which errV was stored
		if u, ok := c.X.(*ssa.UnOp); ok && u.Op == token.MUL {
			for _, r := range kit.Referrers(errV) {
				if st, ok := r.(*ssa.Store); ok && st.Addr == u.X && st.Block() == u.Block() && kit.InstrIndex(st) < kit.InstrIndex(u) {
					// no other store to the address between st and u in that block
					clean := true
					for k := kit.InstrIndex(st) + 1; k < kit.InstrIndex(u); k++ {
						if s2, ok := st.Block().Instrs[k].(*ssa.Store); ok && s2.Addr == u.X {
							clean = false
						}
					}
					if clean {
						return true
					}
				}
			}
		}
	}
	return false
}

func (e *Engine) globalFacts(fn *ssa.Function) []gfact {
	if g, ok := e.gfacts[fn]; ok {
		return g
	}
	e.gfacts[fn] = nil // recursion guard
	var out []gfact
	kit.Instrs(fn, func(in ssa.Instruction) {
		if cv, isCv := in.(*ssa.Convert); isCv {
			// uintN(len(s)): truncating a non-negative integer never yields more than the integer itself
			if lc, isCall := cv.X.(*ssa.Call); isCall {
				if b, isB := lc.Call.Value.(*ssa.Builtin); isB && (b.Name() == "len" || b.Name() == "cap") && len(lc.Call.Args) == 1 {
					if _, uns, isInt := intInfo(cv.Type()); isInt && uns {
						if _, opaque := e.Lin(cv).T[Sym{K: e.key(cv)}]; opaque {
							c := cv
							f := Fact{e.Lin(cv.X).Sub(e.Lin(cv)), "a " + cv.Type().String() + " conversion of a length is at most that length"}
							out = append(out, gfact{f, func(b *ssa.BasicBlock, i int) bool { return instrDominatesPoint(c, b, i) }})
						}
					}
				}
			}
			return
		}
		call, ok := in.(*ssa.Call)
		if !ok {
			return
		}
		name := kit.CalleeName(call)
		switch name {
		case "google.golang.org/protobuf/encoding/protowire.ConsumeBytes",
			"google.golang.org/protobuf/encoding/protowire.ConsumeVarint",
			"google.golang.org/protobuf/encoding/protowire.ConsumeTag":
			idx := call.Call.Signature().Results().Len() - 1
			if n := kit.ExtractOf(call, idx); n != nil {
				f := Fact{e.LenOf(call.Call.Args[0]).Sub(e.Lin(n)), "library post-condition: " + kit.ShortName(name) + " returns n <= len(b) (or n < 0)"}
				c := call
				out = append(out, gfact{f, func(b *ssa.BasicBlock, i int) bool { return instrDominatesPoint(c, b, i) }})
			}
			return
		case "builtin.copy":
			// language specification: copy returns min(len(dst), len(src))
			c := call
			valid := func(b *ssa.BasicBlock, i int) bool { return instrDominatesPoint(c, b, i) }
			why := "copy returns the number of elements copied: 0 <= n <= len(dst), len(src)"
			out = append(out, gfact{Fact{e.Lin(call), why}, valid})
			out = append(out, gfact{Fact{e.LenOf(call.Call.Args[0]).Sub(e.Lin(call)), why}, valid})
			out = append(out, gfact{Fact{e.LenOf(call.Call.Args[1]).Sub(e.Lin(call)), why}, valid})
			return
		case "bytes.IndexByte", "bytes.LastIndexByte", "bytes.Index", "bytes.LastIndex", "strings.IndexByte", "strings.LastIndexByte":
			c := call
			valid := func(b *ssa.BasicBlock, i int) bool { return instrDominatesPoint(c, b, i) }
			why := "library post-condition: " + name + " returns -1 <= i < len(s)"
			out = append(out, gfact{Fact{e.Lin(call).Add(Const(1)), why}, valid})
			out = append(out, gfact{Fact{e.LenOf(call.Call.Args[0]).Sub(e.Lin(call)).Add(Const(-1)), why}, valid})
			return
		}
		// module callee summaries
		sum, argOf := e.callSummary(call)
		if sum == nil {
			return
		}
		for ri, ps := range sum.UpperLen {
			var res ssa.Value
			if call.Call.Signature().Results().Len() == 1 {
				res = call
			} else {
				res = kit.ExtractOf(call, ri)
			}
			if res == nil {
				continue
			}
			for pj := range ps {
				arg := argOf(pj)
				if arg == nil {
					continue
				}
				f := Fact{e.LenOf(arg).Sub(e.Lin(res)), fmt.Sprintf("post-condition of %s: result %d <= len(argument %d) on nil error", kit.ShortName(name), ri, pj)}
				c := call
				out = append(out, gfact{f, func(b *ssa.BasicBlock, i int) bool { return errNilEdgeDominates(c, b, i) }})
			}
		}
		for ri, nn := range sum.NonNeg {
			if !nn {
				continue
			}
			var res ssa.Value
			if call.Call.Signature().Results().Len() == 1 {
				res = call
			} else {
				res = kit.ExtractOf(call, ri)
			}
			if res == nil {
				continue
			}
			f := Fact{e.Lin(res), fmt.Sprintf("post-condition of %s: result %d >= 0 on every normal return", kit.ShortName(name), ri)}
			c := call
			out = append(out, gfact{f, func(b *ssa.BasicBlock, i int) bool { return errNilEdgeDominates(c, b, i) }})
		}
		for ri, ml := range sum.MinLen {
			var res ssa.Value
			if call.Call.Signature().Results().Len() == 1 {
				res = call
			} else {
				res = kit.ExtractOf(call, ri)
			}
			if res == nil || ml <= 0 {
				continue
			}
			f := Fact{e.LenOf(res).Add(Const(-ml)), fmt.Sprintf("post-condition of %s: len(result %d) >= %d on nil error", kit.ShortName(name), ri, ml)}
			c := call
			out = append(out, gfact{f, func(b *ssa.BasicBlock, i int) bool { return errNilEdgeDominates(c, b, i) }})
		}
	})
	// cursor invariants
	for ph, s := range e.Cursors(fn) {
		f := Fact{e.LenOf(s).Sub(e.Lin(ph)), "cursor invariant: " + kit.Path(ph) + " <= len(" + kit.Path(s) + ") (starts at 0, advanced only by lengths a decoder returned for " + kit.Path(s) + "[cursor:])"}
		out = append(out, gfact{f, func(b *ssa.BasicBlock, i int) bool { return true }})
	}
	e.gfacts[fn] = out
	return out
}

// Prove tries to establish g >= 0 immediately before instruction idx of block b.
func (e *Engine) Prove(g Lin, b *ssa.BasicBlock, idx int) (bool, string) {
	save := e.cur
	defer func() { e.cur = save }()
	facts := e.FactsAt(b, idx)
	if e.at != nil {
		// function-level facts were stated before the point was known: restate what they say about a
		// phi by the input that is the only one possible here (the success return of an expanded helper)
		for i, f := range facts {
			facts[i].E = e.restate(f.E)
		}
		g = e.restate(g)
	}
	return e.prove(g, facts, 0)
}

func (e *Engine) restate(l Lin) Lin {
	out := l
	for s, c := range l.T {
		ph, ok := s.K.(*ssa.Phi)
		if !ok || ph.Parent() != e.at.Parent() {
			continue
		}
		r := kit.RootAt(ph, e.at)
		if r == ssa.Value(ph) {
			continue
		}
		var sub Lin
		if s.Len {
			sub = e.LenOf(r)
		} else {
			sub = e.Lin(r)
		}
		out = out.Sub(Var(s).Scale(c)).Add(sub.Scale(c))
	}
	return out
}

func (e *Engine) prove(g Lin, facts []Fact, depth int) (bool, string) {
	if m, ok := g.Min(e.Box); ok && m >= 0 {
		return true, "by the ranges of the operands"
	}
	// keep only facts sharing a symbol with g (transitively)
	rel := map[Sym]bool{}
	for s := range g.T {
		rel[s] = true
	}
	var use []Fact
	for round := 0; round < 3; round++ {
		use = use[:0]
		for _, f := range facts {
			hit := false
			for s := range f.E.T {
				if rel[s] {
					hit = true
				}
			}
			if hit {
				use = append(use, f)
				for s := range f.E.T {
					rel[s] = true
				}
			}
		}
	}
	if len(use) > 40 {
		use = use[:40]
	}
	try := func(r Lin) bool {
		m, ok := r.Min(e.Box)
		return ok && m >= 0
	}
	for i, f1 := range use {
		r1 := g.Sub(f1.E)
		if try(r1) {
			return true, f1.Why
		}
		for j := i; j < len(use); j++ {
			r2 := r1.Sub(use[j].E)
			if try(r2) {
				return true, f1.Why + " + " + use[j].Why
			}
			for k := j; k < len(use); k++ {
				if try(r2.Sub(use[k].E)) {
					return true, f1.Why + " + " + use[j].Why + " + " + use[k].Why
				}
			}
		}
	}
	// phi split (case analysis over the inputs of a phi, inductive on back edges)
	if depth < 3 {
		if ok, why := e.phiSplit(g, depth); ok {
			return true, why
		}
		for _, f1 := range use {
			if ok, why := e.phiSplit(g.Sub(f1.E), depth); ok {
				return true, f1.Why + " + " + why
			}
		}
	}
	return false, e.describeFacts(use)
}

// invariantFor: symbol s keeps its value between the evaluation of phi p and
// any later use (parameter, or defined in a block strictly dominating p's).
func invariantFor(s Sym, p *ssa.Phi) bool {
	v, ok := s.K.(ssa.Value)
	if !ok {
		return false // canonicalised getter/field: conservatively not invariant
	}
	switch x := v.(type) {
	case *ssa.Parameter, *ssa.Const, *ssa.FreeVar:
		return true
	case ssa.Instruction:
		return x.Block() != p.Block() && x.Block().Dominates(p.Block())
	}
	return false
}

// phiSplit proves r >= 0 by cases over the inputs of one phi occurring in r:
// for every edge the goal with the phi replaced by that input must hold on the
// edge; on back edges the goal itself may be used as induction hypothesis.
// All other symbols of r must be invariant with respect to the phi.
func (e *Engine) phiSplit(r Lin, depth int) (bool, string) {
	// the builtins min and max: the result is one of the arguments, and in each case that argument
	// is the least (greatest) of them
	for s := range r.T {
		call, ok := s.K.(*ssa.Call)
		if !ok || s.Len {
			continue
		}
		b, ok := call.Call.Value.(*ssa.Builtin)
		if !ok || (b.Name() != "min" && b.Name() != "max") {
			continue
		}
		if _, _, isInt := intInfo(call.Type()); !isInt {
			continue
		}
		base := e.FactsAt(call.Block(), kit.InstrIndex(call))
		all := true
		for k, a := range call.Call.Args {
			rk := r.Add(Var(s).Scale(-r.T[s])).Add(e.Lin(a).Scale(r.T[s]))
			facts := append([]Fact{}, base...)
			for j, o := range call.Call.Args {
				if j == k {
					continue
				}
				d := e.Lin(o).Sub(e.Lin(a)) // min: other - this >= 0
				if b.Name() == "max" {
					d = e.Lin(a).Sub(e.Lin(o))
				}
				facts = append(facts, Fact{d, "case: " + b.Name() + " picks argument " + fmt.Sprint(k)})
			}
			if ok, _ := e.prove(rk, facts, depth+1); !ok {
				all = false
				break
			}
		}
		if all {
			return true, "case analysis over the arguments of " + b.Name() + "()"
		}
	}
	for s := range r.T {
		ph, ok := s.K.(*ssa.Phi)
		if !ok || s.Len {
			continue
		}
		if _, _, isInt := intInfo(ph.Type()); !isInt {
			continue
		}
		inv := true
		for o := range r.T {
			if o != s && !invariantFor(o, ph) {
				inv = false
			}
		}
		if !inv {
			continue
		}
		all := true
		for k, ed := range ph.Edges {
			pred := ph.Block().Preds[k]
			rk := r.Add(Var(s).Scale(-r.T[s])).Add(e.Lin(ed).Scale(r.T[s]))
			facts := e.edgeFacts(pred, ph.Block())
			if ph.Block().Dominates(pred) {
				facts = append(facts, Fact{r, "induction hypothesis"})
			}
			if ok, _ := e.prove(rk, facts, depth+1); !ok {
				all = false
				break
			}
		}
		if all {
			return true, "case analysis over the inputs of " + kit.Path(ph) + " (inductive on back edges)"
		}
	}
	return false, ""
}

func (e *Engine) describeFacts(fs []Fact) string {
	if len(fs) == 0 {
		return "no facts about the operands are available here"
	}
	var xs []string
	for i, f := range fs {
		if i >= 8 {
			xs = append(xs, "...")
			break
		}
		xs = append(xs, f.E.String(e.Name)+" >= 0")
	}
	return "available facts: " + strings.Join(xs, "; ")
}

// FillFuncs are library functions that write through a pointer argument and do not retain it.
var FillFuncs = map[string]bool{"encoding/binary.Read": true}

// filledOnceBy returns the single call of a FillFuncs function that local a is handed to, if a is otherwise
// only loaded: never stored to, never captured, its address never kept.
func filledOnceBy(a *ssa.Alloc) *ssa.Call {
	var fill *ssa.Call
	for _, r := range kit.Referrers(a) {
		switch x := r.(type) {
		case *ssa.UnOp, *ssa.DebugRef:
		case *ssa.MakeInterface:
			for _, u := range kit.Referrers(x) {
				call, ok := u.(*ssa.Call)
				if _, isDbg := u.(*ssa.DebugRef); isDbg {
					continue
				}
				if !ok || !FillFuncs[kit.CalleeName(call)] || fill != nil {
					return nil
				}
				fill = call
			}
		default:
			return nil
		}
	}
	return fill
}
