// gohbase-verif decides the structural clauses of properties C01..C20 of
// tsuna/gohbase by static analysis of the working tree (see /verif/DESIGN.md).
package main

import (
	"encoding/json"
	"flag"
	"fmt"
	"os"
	"path/filepath"
	"runtime/debug"
	"sort"
	"strconv"
	"strings"
	"sync"
	"time"

	"gohbaseverif/kit"
	"gohbaseverif/props"
)

func usage() {
	fmt.Fprintln(os.Stderr, `usage:
  gohbase-verif check <Cxx>|all [--tier quick|thorough] [--repo DIR] [--verif DIR]
  gohbase-verif explain <report.json>
  gohbase-verif list`)
	os.Exit(2)
}

func main() {
	if len(os.Args) < 2 {
		usage()
	}
	switch os.Args[1] {
	case "list":
		var ids []string
		for id := range props.Registry {
			ids = append(ids, id)
		}
		sort.Strings(ids)
		for _, id := range ids {
			fmt.Println(id, "-", props.Registry[id].Title)
		}
	case "check":
		os.Exit(check(os.Args[2:]))
	case "explain":
		os.Exit(explain(os.Args[2:]))
	case "manifest":
		os.Exit(manifest())
	case "mutant1":
		os.Exit(mutant1(os.Args[2:]))
	case "mutants":
		os.Exit(mutants(os.Args[2:]))
	case "benign":
		os.Exit(benign(os.Args[2:]))
	case "seeds":
		os.Exit(seeds(os.Args[2:]))
	default:
		usage()
	}
}

func envOr(k, d string) string {
	if v := os.Getenv(k); v != "" {
		return v
	}
	return d
}

func check(args []string) int {
	if len(args) < 1 {
		usage()
	}
	id := args[0]
	fs := flag.NewFlagSet("check", flag.ExitOnError)
	tier := fs.String("tier", envOr("VERIF_TIER", "quick"), "quick|thorough")
	repo := fs.String("repo", envOr("VERIF_REPO", "/repo"), "repository under analysis")
	verif := fs.String("verif", envOr("VERIF_DIR", defaultVerifDir()), "verif directory (evidence, reports, known findings)")
	noMut := fs.Bool("no-mutants", false, "thorough tier without the mutant battery")
	fs.Parse(args[1:])
	if *tier != "quick" && *tier != "thorough" {
		*tier = "quick"
	}
	seed, _ := strconv.ParseInt(os.Getenv("VERIF_SEED"), 10, 64)

	var ids []string
	if id == "all" {
		for k := range props.Registry {
			ids = append(ids, k)
		}
		sort.Strings(ids)
	} else {
		if _, ok := props.Registry[id]; !ok {
			fmt.Fprintf(os.Stderr, "unknown property %s\n", id)
			return 2
		}
		ids = []string{id}
	}
	findings, err := kit.LoadFindings(filepath.Join(*verif, "known_findings.txt"))
	if err != nil {
		fmt.Printf("cannot read known findings: %v\n", err)
		for _, id := range ids {
			fmt.Printf("VIOLATION property=%s replay=known_findings.txt\n", id)
		}
		return 1
	}
	started := time.Now()
	prog, err := kit.Load(kit.LoadOptions{Dir: *repo, VTA: *tier == "thorough"})
	if err != nil {
		fmt.Printf("cannot analyse %s: %v\n", *repo, err)
		for _, id := range ids {
			fmt.Printf("VIOLATION property=%s replay=%s\n", id, *repo)
		}
		return 1
	}
	loadS := time.Since(started).Seconds()
	rc := 0
	for _, id := range ids {
		if runOne(id, prog, *verif, *tier, seed, findings, loadS, *noMut) != 0 {
			rc = 1
		}
	}
	return rc
}

func runOne(id string, prog *kit.Prog, verif, tier string, seed int64, findings []kit.Finding, loadS float64, noMut bool) (rc int) {
	started := time.Now()
	pr := props.Registry[id]
	ctx := kit.NewCtx(id, prog)
	defer func() {
		if r := recover(); r != nil {
			fmt.Printf("checker panic while deciding %s: %v\n%s\n", id, r, debug.Stack())
			fmt.Printf("VIOLATION property=%s replay=checker-panic\n", id)
			rc = 1
		}
	}()
	pr.Run(ctx)
	extra := map[string]any{
		"explanation": pr.Explanation,
		"not_decided": pr.Residue,
		"load_s":      loadS,
	}
	if tier == "thorough" {
		for k, v := range props.Thorough(id, prog, ctx, verif, seed, noMut) {
			extra[k] = v
		}
	}
	res := ctx.Finish(verif, tier, seed, started.Add(-time.Duration(loadS*float64(time.Second))), findings, extra)
	for _, l := range res.Lines {
		fmt.Println(l)
	}
	nd := 0
	for _, o := range ctx.Obls {
		if o.Verdict == kit.Discharged {
			nd++
		}
	}
	fmt.Printf("%s: %d obligations over %d rules, %d discharged, %d known findings, %d violations (%s tier, %s call graph, %.1fs)\n",
		id, len(ctx.Obls), len(ctx.Rules), nd, res.Known, res.Violations, tier, prog.CGKind, time.Since(started).Seconds()+loadS)
	if res.Violations > 0 {
		return 1
	}
	return 0
}

func defaultVerifDir() string {
	exe, err := os.Executable()
	if err == nil {
		d := filepath.Dir(filepath.Dir(exe))
		if _, err := os.Stat(filepath.Join(d, "MANIFEST.json")); err == nil {
			return d
		}
	}
	return "/verif"
}

func explain(args []string) int {
	if len(args) < 1 {
		usage()
	}
	b, err := os.ReadFile(args[0])
	if err != nil {
		fmt.Println(err)
		return 2
	}
	var rep map[string]any
	if err := json.Unmarshal(b, &rep); err != nil {
		fmt.Println(err)
		return 2
	}
	fmt.Printf("property : %v\nrule     : %v\n           %v\nconstruct: %v\nposition : %v\nverdict  : %v\nwhy      : %v\nwitness  : %v\n",
		rep["property"], rep["rule"], rep["rule_text"], rep["construct"], rep["position"], rep["verdict"], rep["explanation"], rep["witness"])
	// re-run the property and report whether the construct still fails
	id, _ := rep["property"].(string)
	if _, ok := props.Registry[id]; !ok {
		return 2
	}
	prog, err := kit.Load(kit.LoadOptions{Dir: envOr("VERIF_REPO", "/repo")})
	if err != nil {
		fmt.Println("cannot analyse:", err)
		return 1
	}
	ctx := kit.NewCtx(id, prog)
	props.Registry[id].Run(ctx)
	key, _ := rep["construct"].(string)
	for _, o := range ctx.Obls {
		if o.Key == key {
			fmt.Printf("on the current tree: %s at %s: %s\n", o.Verdict, o.Pos, o.Why)
			if o.Verdict != kit.Discharged {
				fmt.Printf("VIOLATION property=%s replay=%s\n", id, args[0])
				return 1
			}
			return 0
		}
	}
	fmt.Println("on the current tree: construct no longer present (", strings.TrimSpace(key), ")")
	return 0
}

// mutant1 runs one mutant (sub-process of the mutant battery) and prints its result as JSON.
func mutant1(args []string) int {
	if len(args) < 2 {
		usage()
	}
	id := args[0]
	idx, _ := strconv.Atoi(args[1])
	fs := flag.NewFlagSet("mutant1", flag.ExitOnError)
	repo := fs.String("repo", envOr("VERIF_REPO", "/repo"), "")
	verif := fs.String("verif", envOr("VERIF_DIR", defaultVerifDir()), "")
	fs.Parse(args[2:])
	ms, err := props.LoadMutants(*verif, id)
	if err != nil || idx >= len(ms) {
		fmt.Printf(`{"name":"?","status":"broken","detail":"cannot load mutant"}`)
		return 0
	}
	r := props.RunMutant(*repo, id, ms[idx])
	b, _ := json.Marshal(r)
	os.Stdout.Write(b)
	return 0
}

// mutants runs the mutant battery of a property and prints a table
// (development aid; the thorough tier records the same in the evidence).
func mutants(args []string) int {
	if len(args) < 1 {
		usage()
	}
	fs := flag.NewFlagSet("mutants", flag.ExitOnError)
	repo := fs.String("repo", envOr("VERIF_REPO", "/repo"), "")
	verif := fs.String("verif", envOr("VERIF_DIR", defaultVerifDir()), "")
	verbose := fs.Bool("v", false, "print reports")
	fs.Parse(args[1:])
	ids := []string{args[0]}
	if args[0] == "all" {
		ids = nil
		for k := range props.Registry {
			ids = append(ids, k)
		}
		sort.Strings(ids)
	}
	prog, err := kit.Load(kit.LoadOptions{Dir: *repo})
	if err != nil {
		fmt.Println(err)
		return 1
	}
	exe, _ := os.Executable()
	rc := 0
	for _, id := range ids {
		ctx := kit.NewCtx(id, prog)
		props.Registry[id].Run(ctx)
		rs := props.RunMutants(exe, *repo, *verif, id, 8, props.BaselineReports(ctx))
		for _, r := range rs {
			fmt.Printf("%s %-9s %s %s\n", id, r.Status, r.Name, r.Detail)
			if *verbose || r.Status == "killed" && r.Detail != "" {
				for _, rep := range r.Reports {
					fmt.Println("      ", rep)
				}
			}
			if r.Status != "killed" {
				rc = 1
			}
		}
	}
	return rc
}

// manifest prints MANIFEST.json for the registered properties.
func manifest() int {
	var ids []string
	for id := range props.Registry {
		ids = append(ids, id)
	}
	sort.Strings(ids)
	var checks []map[string]any
	for _, id := range ids {
		p := props.Registry[id]
		tech := p.Technique
		if tech == "" {
			tech = "custom static analysis over go/types + go/ssa (dominance, path search, lock sets, who-may-call tables)"
		}
		checks = append(checks, map[string]any{
			"property_id":         id,
			"quick_cmd":           "bin/gohbase-verif check " + id + " --tier quick",
			"thorough_cmd":        "bin/gohbase-verif check " + id + " --tier thorough",
			"evidence_file":       "evidence/" + id + ".json",
			"replay_cmd_template": "bin/gohbase-verif explain {path}",
			"engine":              "gohbase-verif",
			"technique":           tech,
			"level_claimed": map[string]any{
				"category":   "other",
				"text":       "Static analysis: structural necessary conditions of the property, enumerated exhaustively over the type-checked program and its SSA form on every run. " + p.Explanation + " A violated or unrecognised construct fails the check with file:line and the rule. This decides those clauses for every input/schedule because they are shapes of the code, not samples of executions; it does NOT decide: " + p.Residue + ".",
				"design_ref": "DESIGN.md section 3, " + id,
			},
			"level_note": "Trusted: go/types and x/tools go/ssa v0.29.0 (vendored), the reasoned tables printed in the evidence (coverage.tables), sync.Once/sync.Mutex semantics, third-party decoders (protobuf, snappy, b-tree). Anchors (function/field names of gohbase) are resolved through type information; an anchor that no longer resolves fails the check. Configuration analysed: linux/amd64, no build tags, non-test files.",
		})
	}
	var na []map[string]any
	var naIDs []string
	for id := range props.NotApplicable {
		naIDs = append(naIDs, id)
	}
	sort.Strings(naIDs)
	for _, id := range naIDs {
		na = append(na, map[string]any{"property_id": id, "reason": props.NotApplicable[id]})
	}
	// every given property that is neither claimed nor declared not applicable
	// is listed as not claimed (check not finished) so that the list is complete
	if f, err := os.Open(filepath.Join(defaultVerifDir(), "properties.jsonl")); err == nil {
		dec := json.NewDecoder(f)
		for {
			var pr struct {
				ID string `json:"id"`
			}
			if dec.Decode(&pr) != nil {
				break
			}
			if _, ok := props.Registry[pr.ID]; ok {
				continue
			}
			if _, ok := props.NotApplicable[pr.ID]; ok {
				continue
			}
			na = append(na, map[string]any{"property_id": pr.ID, "reason": "not claimed: the static rules designed for it in DESIGN.md section 3 are not implemented (yet); no verdict is given rather than a claim on paper"})
		}
		f.Close()
	}
	man := map[string]any{
		"version":   1,
		"setup_cmd": "cd checker && GOFLAGS=-mod=vendor GOPROXY=off GOSUMDB=off GOTOOLCHAIN=local GOWORK=off go build -o ../bin/gohbase-verif .",
		"hooks": map[string]any{
			"guard":            "verif",
			"enable":           "no hooks: the checks analyse the source of /repo's working tree and need no instrumentation; the build tag verif is reserved and unused",
			"baseline_off_cmd": "cd /repo && GOFLAGS=-mod=mod GOPROXY=off GOSUMDB=off go test -vet=off -count=1 ./...",
			"source_commits":   []string{},
			"add_only":         true,
		},
		"engines": []map[string]any{{
			"name": "gohbase-verif", "path": "checker/", "serves_properties": ids,
			"kind_free_text": "repository-specific static analyser: go/packages loader, go/ssa, CHA/VTA call graph; engines for dominance/must-pass-through, lock sets, who-may tables, blocking-operation enumeration, decode-surface bounds obligations, table/linear-form agreement, class exhaustiveness, token typestate, index provenance, loop-wait",
		}},
		"checks":         checks,
		"not_applicable": na,
		"notes":          "All checks are static analysis of /repo's current working tree (no gohbase code is executed). Known genuine defects are listed in known_findings.txt; fix: commits in /repo are recorded there as fixed. See DESIGN.md.",
	}
	b, _ := json.MarshalIndent(man, "", " ")
	os.Stdout.Write(append(b, '\n'))
	return 0
}

// benign runs every property on behaviour-preserving edits (mutants/benign.json):
// none of them may produce a report (false-alarm battery; development aid and
// part of the thorough-tier evidence of C11).
func benign(args []string) int {
	fs := flag.NewFlagSet("benign", flag.ExitOnError)
	repo := fs.String("repo", envOr("VERIF_REPO", "/repo"), "")
	verif := fs.String("verif", envOr("VERIF_DIR", defaultVerifDir()), "")
	fs.Parse(args)
	ms, err := props.LoadMutants(*verif, "benign")
	if err != nil {
		fmt.Println(err)
		return 1
	}
	var ids []string
	for k := range props.Registry {
		ids = append(ids, k)
	}
	sort.Strings(ids)
	rc := 0
	for _, m := range ms {
		alarms := 0
		reps, status := props.RunMutantAll(*repo, ids, m)
		if status != "" {
			fmt.Printf("benign %-44s %s\n", m.Name, status)
			rc = 1
			continue
		}
		for _, id := range ids {
			for _, rep := range reps[id] {
				alarms++
				fmt.Printf("   FALSE ALARM %s: %s\n", m.Name, rep)
			}
		}
		if alarms > 0 {
			rc = 1
		}
		fmt.Printf("benign %-44s alarms=%d\n", m.Name, alarms)
	}
	return rc
}

// seeds runs every property on each seeded regression (mutants/seeds.json, generated from
// seeded/*/patch.diff by tools/seeds_to_mutants.py) and prints which properties flag it. A seed that
// no property flags, or that its own property does not flag, makes the command fail.
func seeds(args []string) int {
	fs := flag.NewFlagSet("seeds", flag.ExitOnError)
	repo := fs.String("repo", envOr("VERIF_REPO", "/repo"), "")
	verif := fs.String("verif", envOr("VERIF_DIR", defaultVerifDir()), "")
	jsonOut := fs.Bool("json", false, "")
	fs.Parse(args)
	ms, err := props.LoadMutants(*verif, "seeds")
	if err != nil {
		fmt.Println(err)
		return 1
	}
	var ids []string
	for k := range props.Registry {
		ids = append(ids, k)
	}
	sort.Strings(ids)
	type res struct {
		Name    string              `json:"name"`
		Status  string              `json:"status,omitempty"`
		Flagged []string            `json:"flagged_by"`
		Reports map[string][]string `json:"reports,omitempty"`
	}
	results := make([]res, len(ms))
	sem := make(chan struct{}, 6)
	var wg sync.WaitGroup
	for i := range ms {
		wg.Add(1)
		sem <- struct{}{}
		go func(i int) {
			defer wg.Done()
			defer func() { <-sem }()
			reps, status := props.RunMutantAll(*repo, ids, ms[i])
			r := res{Name: ms[i].Name, Status: status, Reports: map[string][]string{}}
			for _, id := range ids {
				if len(reps[id]) > 0 {
					r.Flagged = append(r.Flagged, id)
					r.Reports[id] = reps[id]
				}
			}
			results[i] = r
		}(i)
	}
	wg.Wait()
	rc := 0
	if *jsonOut {
		b, _ := json.MarshalIndent(results, "", " ")
		os.Stdout.Write(append(b, '\n'))
	}
	for i, r := range results {
		own := strings.SplitN(strings.TrimPrefix(r.Name, "seed-"), "-", 2)[0]
		ownHit := false
		for _, f := range r.Flagged {
			if f == own {
				ownHit = true
			}
		}
		verdict := "caught"
		if r.Status != "" {
			verdict, rc = r.Status, 1
		} else if len(r.Flagged) == 0 {
			verdict, rc = "MISSED", 1
		} else if !ownHit {
			verdict = "caught-by-other"
		}
		_ = i
		if !*jsonOut {
			fmt.Printf("seed %-12s %-16s %v\n", r.Name, verdict, r.Flagged)
		}
	}
	return rc
}
