#!/usr/bin/env python3
"""Turn every kept seeded regression (/verif/seeded/<id>/patch.diff + meta.json) into an overlay
mutant "seed-<id>" (multi-edit form) of the property whose check flags it (its own property if that
flags it, else the first flagging one). Idempotent: existing seed-* entries are replaced."""
import glob, json, os, re, sys
V = "/verif"
def hunks(patch):
    files, cur, h = [], None, None
    for line in open(patch).read().split("\n"):
        if line.startswith("diff --git"):
            cur = None
        elif line.startswith("+++ "):
            cur = line[4:].strip()
            cur = cur[2:] if cur.startswith("b/") else cur
        elif line.startswith("--- "):
            pass
        elif line.startswith("@@"):
            h = {"file": cur, "old": [], "new": []}
            files.append(h)
        elif h is not None and cur:
            if line.startswith("+"):
                h["new"].append(line[1:])
            elif line.startswith("-"):
                h["old"].append(line[1:])
            elif line.startswith(" ") or line == "":
                if line == "" :
                    # blank context line without the leading space (trimmed) or end of file
                    h["old"].append(""); h["new"].append("")
                else:
                    h["old"].append(line[1:]); h["new"].append(line[1:])
            elif line.startswith("\\"):
                pass
    out = []
    for h in files:
        old, new = h["old"], h["new"]
        # drop trailing blank artefacts
        while old and new and old[-1] == "" and new[-1] == "":
            old.pop(); new.pop()
        out.append({"file": h["file"], "old": "\n".join(old), "new": "\n".join(new)})
    return out
import subprocess
allm = []
for d in sorted(glob.glob(V + "/seeded/*/")):
    sid = os.path.basename(d.rstrip("/"))
    edits = [e for e in hunks(d + "patch.diff") if not e["file"].endswith("_test.go")]
    allm.append({"name": "seed-" + sid, "edits": edits})
json.dump(allm, open(V + "/mutants/seeds.json", "w"), indent=1)
out = subprocess.run([V + "/bin/gohbase-verif", "seeds", "--json"], capture_output=True, text=True, cwd=V).stdout
res = {r["name"]: r for r in json.loads(out)}
bymut = {}
for d in sorted(glob.glob(V + "/seeded/*/")):
    sid = os.path.basename(d.rstrip("/"))
    meta = json.load(open(d + "meta.json"))
    r = res["seed-" + sid]
    meta["flagged_by_checks"] = r.get("flagged_by") or []
    meta["reports"] = {k: [x[:300] for x in v[:4]] for k, v in (r.get("reports") or {}).items()}
    json.dump(meta, open(d + "meta.json", "w"), indent=1)
    prop = meta["property"]
    flagged = meta["flagged_by_checks"]
    if not flagged:
        print("UNFLAGGED", sid); continue
    target = prop if prop in flagged else flagged[0]
    edits = [e for e in hunks(d + "patch.diff") if not e["file"].endswith("_test.go")]
    bymut.setdefault(target, []).append({"name": "seed-" + sid, "expect": target + ".", "note": "seeded regression written by a sub-agent from the text of %s only; see seeded/%s" % (prop, sid), "edits": edits})
for p in sorted(glob.glob(V + "/mutants/C*.json")):
    pid = os.path.basename(p)[:-5]
    ms = [m for m in json.load(open(p)) if not m["name"].startswith("seed-")]
    ms += bymut.pop(pid, [])
    json.dump(ms, open(p, "w"), indent=1)
    print(pid, len(ms))
for pid, ms in bymut.items():
    json.dump(ms, open(V + "/mutants/%s.json" % pid, "w"), indent=1); print(pid, len(ms), "(new)")
