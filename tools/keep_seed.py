#!/usr/bin/env python3
"""Confirm a seeded change with eval_seed.py and, if confirmed (applies, builds,
suite passes with it, demo passes without and fails with it), keep it under
/verif/seeded/<prop>-<variant>/ with meta.json.
Usage: keep_seed.py <prop> <variant> "<what it needs to manifest>" [first_flagged_by]"""
import json, os, shutil, subprocess, sys
prop, var, needs = sys.argv[1], sys.argv[2], sys.argv[3]
first = sys.argv[4] if len(sys.argv) > 4 else None
src = os.environ.get("SEED_ROOT", "/tmp/seed") + "/%s/%s" % (prop, var)
out = subprocess.run([sys.executable, "/verif/tools/eval_seed.py", src], capture_output=True, text=True).stdout
r = json.loads(out)
ok = r.get("applies") and r.get("builds") and r.get("suite_with") == "pass" and r.get("demo_without") == "pass" and r.get("demo_with") == "fail"
print(prop, var, "confirmed" if ok else "NOT CONFIRMED", "flagged_by", r.get("flagged_by"))
if not ok:
    print(json.dumps({k: r[k] for k in r if k != "reports"}, indent=1)[:1500])
    sys.exit(1)
dst = "/verif/seeded/%s-%s" % (prop, var)
os.makedirs(dst, exist_ok=True)
for f in ("patch.diff", "demo_test.go", "notes.md"):
    if os.path.exists(os.path.join(src, f)):
        shutil.copy(os.path.join(src, f), os.path.join(dst, f))
meta = {
    "property": prop,
    "variant": var,
    "breaks": "see notes.md (written by the sub-agent that produced the change, given only the property text)",
    "needs_to_manifest": needs,
    "confirmed": {
        "applies_with_git_apply": True, "go_build_and_vet": "clean",
        "existing_suite_with_change": "pass (go test -vet=off -count=1 ./...)",
        "demo_without_change": "pass", "demo_with_change": "fail",
        "how": "tools/eval_seed.py in a scratch git worktree of /repo under /tmp (removed afterwards)",
    },
    "flagged_by_checks": r.get("flagged_by"),
    "first_flagged_by_before_strengthening": first.split(",") if first else r.get("flagged_by"),
    "reports": {k: v[:4] for k, v in r.get("reports", {}).items()},
}
json.dump(meta, open(os.path.join(dst, "meta.json"), "w"), indent=1)
