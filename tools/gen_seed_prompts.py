#!/usr/bin/env python3
"""gen_seed_prompts.py <out-root> <worktree-root> <V1,V2,V3> [<pending-root>...]: write <out-root>/<Cxx>.prompt.txt for
every claimed property: the task given to a fresh sub-agent (property text only, nothing from /verif), listing the
regressions already produced (kept under /verif/seeded and, not yet kept, under the pending roots) so that new ones differ."""
import glob, json, os, re, sys
out, wt, variants = sys.argv[1], sys.argv[2], sys.argv[3].split(",")
pending = sys.argv[4:]
props = [json.loads(l) for l in open("/verif/properties.jsonl") if l.strip()]
na = {x["property_id"] for x in json.load(open("/verif/MANIFEST.json")).get("not_applicable", [])}
def describe(d):
    try:
        patch = open(os.path.join(d, "patch.diff")).read()
    except OSError:
        return None
    f = re.search(r"^\+\+\+ b/(\S+)", patch, re.M)
    fn = re.search(r"^@@ .*?@@ (?:func )?(?:\([^)]*\) )?(\w+)", patch, re.M)
    title = ""
    try:
        for l in open(os.path.join(d, "notes.md")):
            l = l.strip().lstrip("#").strip()
            if l:
                title = l
                break
    except OSError:
        pass
    return "%s in %s: %s" % (fn.group(1) if fn else "?", f.group(1) if f else "?", title[:160])
os.makedirs(out, exist_ok=True)
for p in props:
    pid = p["id"]
    if pid in na:
        continue
    prev = []
    for d in sorted(glob.glob("/verif/seeded/%s-*" % pid)):
        prev.append(describe(d))
    for root in pending:
        for d in sorted(glob.glob("%s/%s/[A-Z]" % (root, pid))):
            if not os.path.exists("/verif/seeded/%s-%s" % (pid, os.path.basename(d))):
                prev.append(describe(d))
    prev = [x for x in prev if x]
    V = variants
    names = ", ".join(V[:-1]) + " and " + V[-1]
    txt = f"""You are helping to evaluate a verification tool by producing realistic regressions it should catch. You work ONLY inside the git worktree {wt}/{pid} (a checkout of tsuna/gohbase, a pure-Go HBase client: RPC framing, cellblock codec, region location cache, per-regionserver batching, retry/re-establish logic). Do NOT read, list or use anything under /verif or /repo or /tmp/seed* or /tmp/benign* (other than your own output directory {out}/{pid}), and do not look for any verification tooling on this machine - your output must be independent of it. There is no network. For every go command first run: export GOFLAGS=-mod=mod GOPROXY=off GOSUMDB=off GOTOOLCHAIN=local
NEVER use `git stash` (the stash is shared between worktrees and other engineers are working in sibling worktrees at the same time); to try a change with and without it use `git diff > {out}/{pid}/x.diff`, `git apply -R`, `git apply`. Never use pkill/killall (other engineers run tests at the same time); kill only processes you started, by pid.

Here is a semantic property of gohbase that users rely on:

{pid} — {p.get('title','')}

Statement: {p.get('statement','')}

Quantifier (what it must hold for): {p.get('quantifier','')}

Your task: produce {len(V)} independent source changes, {names} (each applied on its own to a clean tree), to NON-test .go files of the repository, such that each one:
 1. still compiles (go build ./... and go vet ./... are clean for the changed package);
 2. passes the existing test suite unchanged: go test -vet=off -count=1 ./...   (run it; all packages must say ok);
 3. breaks the property above, in a way that needs something specific to manifest - a particular goroutine interleaving, a fault or crash at a particular point, a multi-step sequence of operations, an unusual input, or two cooperating sites that each look fine alone - NOT something ordinary use or the existing tests would expose at once;
 4. is realistic: the kind of regression a plausible refactoring, optimisation, clean-up or well-meant bug fix could introduce (a dropped or weakened check, a reordered pair of statements, a lock narrowed, an index computed differently, an error class changed, a missing case, a value computed from the wrong variable, a condition that is almost equivalent...). Not sabotage such as emptying a function. Keep each change small (a few lines) and make {names} touch DIFFERENT mechanisms/places behind the property.
Other engineers have already produced the following regressions for this property, so do NOT repeat these ideas or close variants of them: {'; '.join('(%d) %s' % (i+1, x) for i, x in enumerate(prev))}.
Look for different ones: a different function, a different clause of the property, a helper the listed ones did not touch, an interaction between two places, a boundary value, an error path, a rarely taken branch, a data-flow change (a value taken from a different but similar-looking source), a change in another package that the mechanism depends on, shared mutable state, a resource handed back too early, an option that is lost on one of several code paths.
For each change also write a demonstration: a new _test.go file (it may live in the package and use unexported identifiers and the repository's existing mocks under test/) containing a deterministic test that FAILS (or panics, or hangs until its own short timeout) WITH the change and PASSES WITHOUT it. Verify both outcomes yourself by running it.

Deliverables (create these files):
 {out}/{pid}/{V[0]}/patch.diff   - `git diff` of the non-test change only (must apply with `git apply` at the repository root of a clean tree)
 {out}/{pid}/{V[0]}/demo_test.go - the demonstration test; first line a comment saying where it goes (e.g. // place at: region/zz_seed_test.go)
 {out}/{pid}/{V[0]}/notes.md     - first line: a one-line title of the change; then which clause of the property it breaks, what is needed for it to manifest, and the exact commands you ran with their outcome with and without the patch (suite result, demo result)
 and the same under {' and '.join('%s/%s/%s/' % (out, pid, v) for v in V[1:])}.
Before you finish, leave the worktree clean: `git -C {wt}/{pid} checkout -- .` and delete any untracked files you created there. If after honest effort you can only find fewer good ones, deliver those. If, while reading the code, you notice that the UNCHANGED tree already violates the property in some scenario, say so in your reply (with the scenario) - that is valuable too. Reply with a short summary of each change (files touched, mechanism, how it manifests)."""
    open(os.path.join(out, pid + ".prompt.txt"), "w").write(txt)
print("prompts written to", out)
