#!/usr/bin/env python3
"""patches_to_edits.py <root> <out.json>: turn every <root>/C*/<V>/patch.diff into a multi-edit entry
(name <Cxx>-<V>) of an edit list usable with `gohbase-verif benign --file <name>` / `seeds`."""
import glob, json, os, sys
src = open(os.path.join(os.path.dirname(os.path.abspath(__file__)), "seeds_to_mutants.py")).read()
ns = {}
exec(src.split("import subprocess")[0], ns)
out = []
for d in sorted(glob.glob(sys.argv[1] + "/C*/*/")):
    if not os.path.exists(d + "patch.diff"):
        continue
    parts = d.rstrip("/").split("/")
    edits = [e for e in ns["hunks"](d + "patch.diff") if not e["file"].endswith("_test.go")]
    out.append({"name": parts[-2] + "-" + parts[-1], "edits": edits})
json.dump(out, open(sys.argv[2], "w"), indent=1)
print(len(out), "entries")
