#!/usr/bin/env python3
"""Evaluate every complete seed under a root dir that is not yet kept in /verif/seeded."""
import glob, json, os, subprocess, sys
root = sys.argv[1]
for d in sorted(glob.glob(root + "/C*/[A-Z]")):
    prop, var = d.split("/")[-2], d.split("/")[-1]
    if not all(os.path.exists(os.path.join(d, f)) for f in ("patch.diff", "demo_test.go", "notes.md")):
        continue
    if os.path.exists("/verif/seeded/%s-%s/meta.json" % (prop, var)):
        continue
    out = subprocess.run([sys.executable, "/verif/tools/eval_seed.py", d], capture_output=True, text=True).stdout
    try:
        r = json.loads(out)
    except Exception:
        print(prop, var, "EVAL ERROR", out[-300:]); continue
    ok = r.get("applies") and r.get("builds") and r.get("suite_with") == "pass" and r.get("demo_without") == "pass" and r.get("demo_with") == "fail"
    print(prop, var, "confirmed" if ok else "NOT-CONFIRMED %s" % {k: r.get(k) for k in ("applies", "builds", "suite_with", "demo_without", "demo_with")}, "flagged_by", r.get("flagged_by"))
    for v in r.get("reports", {}).values():
        for x in v[:2]:
            print("     ", x[:210])
