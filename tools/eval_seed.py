#!/usr/bin/env python3
"""Evaluate a seeded change: confirm it (a) applies, (b) builds, (c) passes the
existing suite, (d) its demonstration passes without and fails with the change,
then run every check of /verif against the changed tree and report which
properties raise a violation.  Usage: eval_seed.py <dir with patch.diff + demo_test.go> [--keep]
Works in a scratch git worktree of /repo under /tmp (removed afterwards)."""
import json, os, re, subprocess, sys, shutil, time

ENV = dict(os.environ, GOFLAGS="-mod=mod", GOPROXY="off", GOSUMDB="off", GOTOOLCHAIN="local")

def run(cmd, cwd=None, timeout=600):
    try:
        p = subprocess.run(cmd, cwd=cwd, env=ENV, shell=isinstance(cmd, str), capture_output=True, text=True, timeout=timeout)
        return p.returncode, (p.stdout + p.stderr)
    except subprocess.TimeoutExpired as e:
        return 124, "TIMEOUT " + str(e)

def main():
    d = os.path.abspath(sys.argv[1])
    wt = "/tmp/wt/eval-%d" % os.getpid()
    res = {"dir": d}
    run(["git", "-C", "/repo", "worktree", "add", "-q", "--detach", wt, "HEAD"])
    try:
        demo_src = open(os.path.join(d, "demo_test.go")).read()
        m = re.search(r"place at:\s*(\S+)", demo_src)
        demo_rel = m.group(1) if m else "zz_seed_test.go"
        demo_path = os.path.join(wt, demo_rel)
        pkg = "./" + os.path.dirname(demo_rel) if os.path.dirname(demo_rel) else "."
        tests = re.findall(r"^func (Test\w+)\(", demo_src, re.M)
        pat = "^(" + "|".join(tests) + ")$"
        # demo without the change
        shutil.copy(os.path.join(d, "demo_test.go"), demo_path)
        rc, out = run(["go", "test", "-vet=off", "-count=1", "-timeout", "120s", "-run", pat, pkg], cwd=wt)
        res["demo_without"] = "pass" if rc == 0 else "FAIL"
        res["demo_without_tail"] = out[-400:]
        os.remove(demo_path)
        # apply
        rc, out = run(["git", "apply", os.path.join(d, "patch.diff")], cwd=wt)
        res["applies"] = rc == 0
        if rc != 0:
            res["apply_err"] = out[-300:]
            print(json.dumps(res, indent=1)); return
        rc, out = run("go build ./... && go vet ./...", cwd=wt)
        res["builds"] = rc == 0
        rc, out = run(["go", "test", "-vet=off", "-count=1", "./..."], cwd=wt, timeout=900)
        res["suite_with"] = "pass" if rc == 0 else "FAIL"
        if rc != 0:
            res["suite_tail"] = out[-600:]
        shutil.copy(os.path.join(d, "demo_test.go"), demo_path)
        rc, out = run(["go", "test", "-vet=off", "-count=1", "-timeout", "120s", "-run", pat, pkg], cwd=wt)
        res["demo_with"] = "fail" if rc != 0 else "PASSES(!)"
        os.remove(demo_path)
        # checks
        rc, out = run(["/verif/bin/gohbase-verif", "check", "all", "--repo", wt, "--verif", "/tmp/vf-eval-%d" % os.getpid()], cwd="/verif")
        viol = {}
        for line in out.splitlines():
            m = re.match(r"^(\S+): (C\d+\.\S+) (violated|undecided): (.*)", line)
            if m:
                viol.setdefault(m.group(2).split(".")[0], []).append("%s %s %s: %s" % (m.group(2), m.group(3), m.group(1), m.group(4)[:160]))
        res["flagged_by"] = sorted(viol)
        res["reports"] = viol
        shutil.rmtree("/tmp/vf-eval-%d" % os.getpid(), ignore_errors=True)
    finally:
        if "--keep" not in sys.argv:
            run(["git", "-C", "/repo", "worktree", "remove", "--force", wt])
    print(json.dumps(res, indent=1))

main()
