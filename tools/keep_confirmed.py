#!/usr/bin/env python3
"""keep_confirmed.py <root> <eval.txt>: keep every seed of <root> that eval_pending.py confirmed
(applies, builds, suite passes with it, demo passes without / fails with it) under /verif/seeded,
recording which checks flagged it when it arrived (from eval.txt)."""
import json, os, re, shutil, sys
root, ev = sys.argv[1], sys.argv[2]
first = {}
for l in open(ev):
    m = re.match(r"^(C\d+) (\w) confirmed flagged_by (\[.*\])", l)
    if m:
        first[(m.group(1), m.group(2))] = json.loads(m.group(3).replace("'", '"'))
n = 0
for (prop, var), fl in sorted(first.items()):
    src = "%s/%s/%s" % (root, prop, var)
    dst = "/verif/seeded/%s-%s" % (prop, var)
    os.makedirs(dst, exist_ok=True)
    for f in ("patch.diff", "demo_test.go", "notes.md"):
        shutil.copy(os.path.join(src, f), os.path.join(dst, f))
    needs = ""
    for ln in open(os.path.join(src, "notes.md")).read().split("\n"):
        t = ln.strip("# *-").strip()
        if len(t) > 40:
            needs = t[:300]; break
    meta = {"property": prop, "variant": var,
            "breaks": "see notes.md (written by the sub-agent that produced the change, given only the property text)",
            "needs_to_manifest": needs,
            "confirmed": {"applies_with_git_apply": True, "go_build_and_vet": "clean",
                          "existing_suite_with_change": "pass (go test -vet=off -count=1 ./...)",
                          "demo_without_change": "pass", "demo_with_change": "fail",
                          "how": "tools/eval_seed.py in a scratch git worktree of /repo under /tmp (removed afterwards)"},
            "flagged_by_checks": [], "first_flagged_by_before_strengthening": fl or ["none"], "reports": {}}
    json.dump(meta, open(os.path.join(dst, "meta.json"), "w"), indent=1)
    n += 1
print(n, "kept")
